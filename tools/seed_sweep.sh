#!/bin/sh
# usage: seed_sweep.sh <first> <last>   -- every quick check under VERIF_SEED=first..last on the unchanged tree; prints anything that is not exit 0
i=$1
while [ $i -le $2 ]; do
  for c in C13 C15 C16 C17 C18; do
    VERIF_SEED=$i ./check $c --no-evidence > /tmp/sweep-$c-$i.out 2>&1; rc=$?
    [ $rc -ne 0 ] && { echo "seed=$i $c rc=$rc"; tail -5 /tmp/sweep-$c-$i.out; }
  done
  i=$((i+1))
done
echo "SWEEP $1..$2 DONE"
