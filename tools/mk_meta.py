#!/usr/bin/env python3
"""Writes seeded/<id>/meta.json from the table below (only for ids without one, unless --force)."""
import json, os, sys
_X = {
 "C13a1": ("C13", ["C13", "C17"], "indexer run-merge test keyed on buffer offset (m.start()==0): an N-run ending exactly on a flush boundary disappears; needs buffer < record and that alignment"),
 "C13a2": ("C13", ["C13"], "shared chunk_spans helper, get_gap_iter keeps half-open arithmetic: gaps >= buffer are streamed short; needs a gap at least one buffer long"),
 "C13a3": ("C13", ["C13"], "rev_chunks = reversed(list(fwd_chunks)): bytes identical, whole reverse fragment held in memory; needs a long reverse-strand fragment and a memory/read observer"),
 "C13b1": ("C13", ["C13", "C17"], "run_open flag only updated when a flushed buffer contains a match: an all-N flushed buffer leaves it stale and the gap vanishes; needs tiny buffers and an N-run on flush boundaries"),
 "C13b2": ("C13", ["C13"], "chunk_spans helper with mismatched coordinate conventions in get_gap_iter: every non-final gap chunk loses one residue"),
 "C13b3": ("C13", ["C13"], "rev_chunks materialises every chunk before yielding the first; only memory and read order show it"),
 "C15a1": ("C15", ["C15"], "freshness judged by max(mtime of .fai,.agp): fresh .fai + stale .agp accepted; needs rewrite then re-index killed/raced between the two cache files"),
 "C15a2": ("C15", ["C15"], "replace() moved inside the with-block: rename before flush/close; needs a crash or reader between rename and close"),
 "C15a3": ("C15", ["C15"], "`not idx_mtime > fasta_mtime` tidied to `<`: mtime ties count as fresh; needs a FASTA rewrite on the same clock tick as the cache"),
 "C15b1": ("C15", ["C15"], "temp file named <cache>.tmp without the pid: a second indexer truncates what the first is about to rename; needs that two/three-process interleaving"),
 "C15b2": ("C15", ["C15"], "two sites: mtime check dedented out of the loop (only .agp tested) + .agp written before .fai; needs a re-index killed between the renames after a FASTA edit"),
 "C15b3": ("C15", ["C15"], "rename before close (indentation): crash/reader right after the second rename finds an empty .agp"),
 "C15c1": ("C15", ["C15"], "both-exist + max() of cache mtimes; same family as C15a1 found independently"),
 "C15c2": ("C15", ["C15"], "fixed temp name (os import dropped): three-process interleaving yields an empty .fai"),
 "C15c3": ("C15", ["C15"], "with-block wraps try/except so replace happens before close; only the .agp window is silent"),
 "C16a1": ("C16", ["C16"], "log collision becomes exists()-check then open('w'): only a log that appears in between, or a dangling symlink, is clobbered"),
 "C16a2": ("C16", ["C16"], "open-mode refactor: the FASTA companion .agp falls back to mode 'w'; needs FASTA output, --no-clobber and a pre-existing companion while earlier outputs do not exist"),
 "C16a3": ("C16", ["C16"], "os.open without O_TRUNC: under --clobber an existing longer file keeps its stale tail"),
 "C16b1": ("C16", ["C16"], "setup_logging check-then-open; same family as C16a1 (dangling symlink or race)"),
 "C16b2": ("C16", ["C16"], "os.open(O_WRONLY|O_CREAT[|O_EXCL]) never truncates: longer pre-existing outputs keep a tail under --clobber"),
 "C16b3": ("C16", ["C16"], "clean-up helper removes the FASTA and its companion when the companion open fails: deletes the pre-existing .agp that caused the collision"),
 "C17a1": ("C17", ["C17"], "bait tags of cut fragments pass through a set: tag order follows PYTHONHASHSEED; needs a cut contig with >= 2 tags besides Painted and AGP output"),
 "C17a2": ("C17", ["C17"], "setup_logging removes handlers while iterating: from the third in-process invocation on, run N logs into run N-1's file"),
 "C17a3": ("C17", ["C17", "C13"], "all-ACGT fast path forgets to flush the pending region: assembly depends on buffer size / cached vs fresh / FASTA vs TPF"),
 "C17b1": ("C17", ["C17", "C13"], "run merge fires whenever a run starts a new buffer: gap row disappears when an N-run ends on a flush boundary"),
 "C17b2": ("C17", ["C17"], "tags of cut fragments pass through a set (dedupe of Cut)"),
 "C17b3": ("C17", ["C17", "C15"], "cache freshness judged by the newest index file: stale .agp loaded after only the .fai was regenerated"),
 "C18a1": ("C18", ["C18"], "find_overlaps tracks span while extending and drops the recompute after stripping terminal gaps; needs a bait edge inside a gap"),
 "C18a2": ("C18", ["C18"], "_pop_terminal removes one gap (while -> if): terminal gap left behind with >= 2 consecutive gaps"),
 "C18a3": ("C18", ["C18"], "trim_fragment flattened: span update after the strand swap moves the opposite edge for non-forward fragments"),
 "C18b1": ("C18", ["C18"], "overlap_start/end computed before stripping gaps; needs a bait edge in or at the end of a gap"),
 "C18b2": ("C18", ["C18"], "row/bait overlaps as 'row length minus overhang' with one-sided clamping: wrong once an interior row has become the first row"),
 "C18b3": ("C18", ["C18"], "strand dispatch else -> elif strand == -1: unknown-strand terminal fragments are not shortened while the span moves"),
"C13c1": ("C13", ["C13"], "run-merge test became m.start()==0 and region_end: a gap ending at a flush boundary is swallowed"),
 "C13c2": ("C13", ["C13"], "get_gap_iter chunk arithmetic 'aligned' with fwd_chunks on a 0-based offset: non-final gap chunks one N short"),
 "C13c3": ("C13", ["C13"], "rev_chunks = reversed(tuple(fwd_chunks)): whole minus-strand fragment resident"),
 "C13d1": ("C13", ["C13"], "run_open flag not cleared by an all-N flushed buffer: line-aligned gaps filling a flush vanish"),
 "C13d2": ("C13", ["C13"], "flush trigger counts lines, calibrated on the first record only: a later record with wider lines buffers width-ratio times the buffer; output unchanged, only memory shows it (needed the mixed-width allocator case)"),
 "C13d3": ("C13", ["C13"], "rev_chunks materialised before the first write"),
 "C15d1": ("C15", ["C15"], "freshness = both exist + max(mtime) newer"),
 "C15d2": ("C15", ["C15"], "rename inside the with-block (before close)"),
 "C15d3": ("C15", ["C15"], "temp name without pid (path.with_suffix), import os removed"),
 "C15e1": ("C15", ["C15"], "format_agp batches rows in 1000s and drops the row that triggers each flush: needs a derived AGP of > 1000 rows and a cached load (needed the many-rows scale outlier)"),
 "C15e2": ("C15", ["C15"], "rename before close"),
 "C15e3": ("C15", ["C15"], "oldest = max(idx_mtimes): accepted if either file is newer"),
 "C16c1": ("C16", ["C16"], "FASTA companion .agp written through atomic_text_writer ignoring clobber: replaced under --no-clobber (temp files made the first W discovery discard the workload; fixed)"),
 "C16c2": ("C16", ["C16"], "except OSError fallback before except FileExistsError in setup_logging: an existing log is the only collision -> run carries on, exit 0"),
 "C16c3": ("C16", ["C16"], "get_output_filehandle: exists() check then open('w'): dangling symlink or race"),
 "C16d1": ("C16", ["C16"], "os.fdopen(os.open(... no O_TRUNC)): stale tail under --clobber"),
 "C16d2": ("C16", ["C16"], "try/except around FASTA streaming unlinks .fa and its .agp on error: pre-existing companion deleted under --no-clobber when a write fails mid-FASTA (needed fault-injected --no-clobber runs)"),
 "C16d3": ("C16", ["C16"], "log: if not clobber and exists() then filemode w"),
 "C17c1": ("C17", ["C17", "C13"], "run merge m.start()==0: assembly depends on buffer size"),
 "C17c2": ("C17", ["C17"], "force=True only when a log file is written: a later --no-write-log / STDOUT invocation logs into the earlier run's file (needed logging-mode variety in histories)"),
 "C17c3": ("C17", ["C17"], "set(bait.tags) - {Painted}: tag order follows the hash seed"),
 "C17d1": ("C17", ["C17", "C13"], "early return for an all-N buffer skips adding its length: coordinates depend on buffer size"),
 "C17d2": ("C17", ["C17"], "own handler clean-up removes while iterating: stale FileHandler from the third invocation on"),
 "C17d3": ("C17", ["C17"], "set(bait.tags) - {Painted, Cut}"),
 "C18c1": ("C18", ["C18"], "row/bait overlaps became cached_property: stale after a later discard or trim"),
 "C18c2": ("C18", ["C18"], "span update moved inside the strand branches: reverse-strand cut moves the wrong edge"),
 "C18c3": ("C18", ["C18"], "span computed before stripping; trailing-gap loop never adjusts overlap_end"),
 "C18d1": ("C18", ["C18"], "trailing loop uses idx[j_ovr]: end includes the dropped gap"),
 "C18d2": ("C18", ["C18"], "overhang guards > 0 became truthiness: negative overhangs grow the fragment"),
 "C18d3": ("C18", ["C18"], "discard_end strips at most one exposed gap"),
}
T = dict(_X)
force = "--force" in sys.argv
for sid, (prop, caught, needs) in T.items():
    d = f"/verif/seeded/{sid}"
    if not os.path.isdir(d):
        continue
    p = d + "/meta.json"
    if os.path.exists(p) and not force:
        continue
    meta = {
        "id": sid, "property": prop, "breaks": needs.split(":")[0], "needs_to_manifest": needs,
        "origin": "fresh sub-agent given only the property text and a scratch worktree",
        "confirmed": "tools/verify_seeded.sh: scratch worktree of /repo HEAD; clean tree 64 tests pass + demo PASS; patched tree 64 tests pass + demo FAIL (seeded/VERIFY_LOG.txt)",
        "caught_by": caught,
        "ran": "tools/run_against_seeded.sh <id> <check> (git -C /repo apply; ./check <ID> --tier quick; git -C /repo checkout -- .) and ./check sensitivity on a scratch copy",
    }
    json.dump(meta, open(p, "w"), indent=1); open(p, "a").write("\n")
print("ok")
