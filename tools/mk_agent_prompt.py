#!/usr/bin/env python3
"""Write the prompt given to a fresh mutation sub-agent: property text + worktree only."""
import json, sys
props = {json.loads(l)["id"]: json.loads(l) for l in open("/verif/properties.jsonl")}
FLAV = {
    "a": "Favour changes that look like a plausible refactor, optimisation or 'clean-up' a maintainer might make (restructured loop, changed comparison, helper extracted, reordered statements, a fast path added).",
    "b": "Favour changes where two sites each look fine alone but break the property together, or where the breakage only shows for boundary sizes/states, a particular order of operations, a particular pre-existing state on disk, or a fault/interruption at a particular moment.",
    "c": "Favour changes to the less obvious code paths the property depends on (error handling, clean-up, the second of two similar branches, helper modules the main path calls into), and changes that only show after a particular earlier event (an interrupted run, an earlier invocation, a leftover file).",
    "d": "Favour subtle changes: ones that leave the common path byte-identical and diverge only in a rarely taken branch, at larger scale, for particular size relations, or after a particular earlier event; assume a diligent reviewer will run the obvious spot checks (a handful of sizes, one crash, one re-run) and try to produce something those spot checks would miss while it still genuinely breaks the property as stated.",
    "e": "Favour changes in modules the property depends on indirectly (shared helpers, formatters, parsers, data classes, naming/sorting utilities, logging set-up) rather than at the most obvious site, and changes introduced while 'improving' performance or robustness (caching, memoisation, batching writes, reusing objects or file handles, catching exceptions).",
    "f": "Favour changes outside the most obvious function: the command-line wiring (how options are passed down, defaults, early exits), helper functions shared by several callers, module-level state, the second or third output file rather than the first, the less common input or output format, the error path rather than the success path. Each change must still break the property as stated and need something specific to show.",
    "g": "Favour the SMALLEST possible changes - one token or one line: a flipped comparison or boundary (< vs <=, > vs >=), an off-by-one, swapped arguments, a wrong default value, a dropped `not`, `and` vs `or`, a wrong variable of the same type, a removed statement, an `if` that became unconditional - at sites the property depends on. Each must still pass all 64 tests and need something specific to show.",
    "i": "Make every change in a file OTHER than the ones the property record lists under anchors.files (for example the parser, the formatters, the Scaffold/Assembly/Fragment/Gap data classes, build utilities, statistics, the simple FASTA helpers, the other command-line scripts) - a helper the anchored code calls or a module whose state it shares - so that the property as stated breaks although the anchored functions themselves are untouched.",
    "h": "Favour changes to recently added or recently modified code (see `git log -p -3` in the worktree) and to the way older code interacts with it: a later 'simplification' or 'optimisation' of a recent fix that quietly removes what made it correct, while keeping the obvious half of the fix intact.",
    "j": "Favour changes to the ORDER and COMPLETENESS of what the command-line tools do: operations reordered, an early return or early exit added, a resource left open or closed too early, a later output depending on an earlier one, partial results left behind, defaults of options changed, an option no longer forwarded to one of several similar calls.",
    "k": "Favour changes where every file that is written is written correctly, but the DECISION logic is wrong in particular histories or states: which of several files is consulted, in which order, what happens when only one of them is missing, equal timestamps, a file replaced rather than edited, a leftover from an interrupted run, a path reached through a link.",
    "l": "Favour changes whose effect depends on SCALE or on a size relation that small examples do not reach: thresholds inside helpers (for example a fast path above some size), behaviour that differs only when a length is an exact multiple of another, only for lines wider or narrower than the buffer, only beyond some number of records, rows or chunks, only for the second and later records of a file.",
    "m": "Every change must look like a well-meant PERFORMANCE optimisation: caching or memoising something, lazy evaluation, batching writes or reads, reusing objects, buffers or file handles, skipping work that 'cannot have changed', precomputing, short-circuiting - with the mistake hidden in what the optimisation forgets (invalidation, keying, aliasing, bounds, ordering).",
    "n": "Every change must look like a well-meant ROBUSTNESS improvement: extra exception handling, a retry, cleaning up partial results on failure, validating inputs or cached data, falling back to an alternative path, defaulting a missing value - with the mistake hidden in what the new handling swallows, deletes, accepts or repeats.",
    "o": "Make every change in or around the asm-format tool (src/tola/assembly/scripts/asm_format.py) and the parsing/formatting code it shares with the other tools, so that what asm-format writes (AGP, TPF, STR or REPR output, to a file or to STDOUT) comes to depend on the hash seed, the working directory, or earlier invocations in the same process.",
    "q": "Make every change in the naming, ranking, grouping and statistics code that pretext-to-asm runs between reading its inputs and writing its outputs (src/tola/assembly/build_utils.py, build_assembly.py, assembly_stats.py, assembly.py, scaffold.py), so that some output file comes to depend on the hash seed, on earlier invocations in the same process, or on the input format - while every single run still looks plausible.",
    "r": "Make every change in how the reports and the log are produced (the .log file, the info yaml, the chromosome list and chr_report CSV files, the messages logged while remapping), so that their bytes come to depend on the hash seed, the working directory, the cache state, or earlier invocations in the same process.",
}
T = """You are helping to evaluate a verification harness by writing *seeded defects* for an open-source Python project (sanger-tol/agp-tpf-utils: CLI utilities for AGP/TPF genome assembly files with a streaming FASTA indexer/writer). This is authorised mutation-testing work on a scratch copy; nothing you write is ever merged.

Your own scratch git worktree of the project is at WT (work ONLY inside it; never touch /repo or /verif and do not read /verif). Run the project's test-suite in it with:

    cd WT && PYTHONPATH=WT/src /venv/bin/python -m pytest -q -p no:cacheprovider

(64 tests, all pass on the unmodified tree; `PYTHONPATH=WT/src` is essential, otherwise the interpreter imports the installed copy under /repo/src). There is no network.

Here is one semantic property the project is supposed to satisfy (JSON record):

PROP

TASK: produce THREE different, independent source changes to the project (files under WT/src only; do not touch tests/), each of which
  1. breaks the property above (makes the real code violate it for some input / configuration / history / fault / schedule),
  2. still imports/compiles and still passes ALL 64 existing tests unedited, and
  3. needs something *specific* in order to manifest - a particular interleaving, a crash or fault at a particular point, a multi-step sequence of operations, an unusual input or size relation, particular pre-existing state, or two cooperating sites that each look fine alone - NOT something ordinary use would expose at once.
FLAVOUR
The three changes should be genuinely different from each other (different mechanism or different site), realistic in size (a few lines to ~30 lines each), and must not be guarded by environment variables, magic input values/names, random numbers, dates or anything else artificial: they must look like honest mistakes.

For each change k in 1..3 deliver, under WT/deliver/PIDTAGk/ (i.e. PIDTAG1, PIDTAG2, PIDTAG3):
  - patch.diff : the change as a unified diff produced by `git -C WT diff` against the unmodified tree (so it applies with `git apply` at the root of a clean checkout). Each patch must be independent: produce it starting from a clean tree (`git -C WT checkout -- src` between changes).
  - demo.py : a self-contained demonstration program, run as `PYTHONPATH=<tree>/src /venv/bin/python demo.py`, that exits 0 and prints PASS on the unmodified tree and exits non-zero and prints FAIL on the patched tree. It must create any files it needs in a fresh temporary directory and clean up. It may monkeypatch or simulate faults/interleavings itself if the defect needs one to show.
  - notes.md : 5-15 lines: what the change is, why it breaks the property, exactly what is needed for it to manifest, and why the 64 tests do not notice.

Before you finish, for every change verify yourself: (a) clean tree -> tests pass and demo passes; (b) patched tree -> tests still pass (all 64) and demo fails. Leave the worktree's src CLEAN (git checkout -- src) at the end, with only the untracked deliver/ directory added. Your final message should list the three changes in one line each with the verification results you observed.
"""
pid, tag, wt = sys.argv[1], sys.argv[2], sys.argv[3]
if len(sys.argv) > 4:
    T = T.replace("produce THREE different", "produce " + sys.argv[4] + " different").replace("The three changes", "The changes").replace("k in 1..3", "k in 1.." + {"FIVE": "5", "FOUR": "4"}[sys.argv[4]]).replace("(i.e. PIDTAG1, PIDTAG2, PIDTAG3)", "(PIDTAG1, PIDTAG2, ...)").replace("list the three changes", "list the changes")
print(T.replace("WT", wt).replace("PROP", json.dumps(props[pid], indent=1)).replace("FLAVOUR", FLAV[tag]).replace("PIDTAG", pid + tag))
