#!/usr/bin/env python3
"""Prompt for a sub-agent that writes behaviour-PRESERVING refactors (false-alarm corpus)."""
import json, sys
props = {json.loads(l)["id"]: json.loads(l) for l in open("/verif/properties.jsonl")}
T = """You are helping to evaluate a verification harness for an open-source Python project (sanger-tol/agp-tpf-utils: CLI utilities for AGP/TPF genome assembly files with a streaming FASTA indexer/writer) by writing *behaviour-preserving refactors*: changes that restructure the code substantially but under which one given property STILL HOLDS. They are used to find out whether the harness raises false alarms on correct code. Nothing you write is ever merged.

Your own scratch git worktree of the project is at WT (work ONLY inside it; never touch /repo or /verif and do not read /verif). Run the project's test-suite in it with:

    cd WT && PYTHONPATH=WT/src /venv/bin/python -m pytest -q -p no:cacheprovider

(64 tests, all pass on the unmodified tree; `PYTHONPATH=WT/src` is essential, otherwise the interpreter imports the installed copy under /repo/src). There is no network.

Here is the property (JSON record):

PROP

TASK: produce FOUR different, independent refactors of the code this property is anchored in (files under WT/src only; do not touch tests/), each of which
  1. keeps the property above TRUE in every respect of its statement and quantifier (think it through carefully: faults, crashes, interleavings, sizes, hash seeds - whatever the property quantifies over),
  2. keeps all 64 existing tests passing and keeps the tools' observable outputs (files written, exit codes) the same for valid use,
  3. changes HOW the code does it in a way a careless checker might trip over: different library calls or system-call patterns (e.g. os.open + os.fdopen, tempfile, os.link/os.rename, readline loops vs iteration, read(n) with different but still bounded sizes, memoryview/bytearray, writelines, different order of independent operations, extra harmless stat() calls or temporary files that are cleaned up, recomputing instead of incrementally maintaining, sorting instead of set iteration, extra validation that fails loudly or rebuilds), different internal helper structure, renamed private helpers, different chunking that still respects the stated bounds, etc.
Make the four refactors genuinely different from each other, each 10-60 changed lines. Do not change public function/method names, signatures or CLI options. Do not weaken anything: if in doubt whether a variant still satisfies the property, choose another variant.

For each refactor k in 1..4 deliver, under WT/deliver/PIDrk/ (i.e. PIDr1 .. PIDr4):
  - patch.diff : unified diff from `git -C WT diff` against the unmodified tree (applies with `git apply` on a clean checkout); each patch independent (git -C WT checkout -- src between them).
  - notes.md : what was restructured and a short argument why the property still holds (address each clause of the statement).
Verify for each: patched tree -> all 64 tests pass. Leave src CLEAN at the end (only the untracked deliver/ directory added). Final message: one line per refactor.
"""
pid, wt = sys.argv[1], sys.argv[2]
print(T.replace("WT", wt).replace("PROP", json.dumps(props[pid], indent=1)).replace("PID", pid))
