#!/bin/sh
# usage: run_against_seeded.sh <seeded id> <check id> [extra args]
# Runs the quick check against a scratch copy of /repo/src with the seeded patch applied
# (VERIF_REPO_SRC); /repo itself is not touched, so background runs against /repo stay clean.
# (Equivalent to: git -C /repo apply <patch>; ./check ...; git -C /repo checkout -- .)
ID="$1"; CHK="$2"; shift 2
D=$(mktemp -d /dev/shm/vsim-mut-XXXXXX) || exit 2
cp -r /repo/src "$D/src"; mkdir -p "$D/tests"; ln -s /repo/tests/data "$D/tests/data"
patch -p1 -s -d "$D" -i /verif/seeded/$ID/patch.diff || { echo "patch does not apply"; rm -rf "$D"; exit 2; }
cd /verif; VERIF_REPLAY_DIR="$D/replays" VERIF_REPO="$D" VERIF_REPO_SRC="$D/src" ./check $CHK --no-evidence "$@" > /tmp/seeded-$ID-$CHK.out 2>&1; rc=$?
RV=$(grep -h -o '"replay_verified_in_fresh_interpreter": [a-z]*' "$D"/replays/*.json 2>/dev/null | head -1 | sed 's/.*: //')
rm -rf "$D"
echo "$ID vs $CHK: exit=$rc $(grep -c '^VIOLATION' /tmp/seeded-$ID-$CHK.out) VIOLATION line(s); replay_verified=$RV; $(grep -m1 'violation: oracle' /tmp/seeded-$ID-$CHK.out | cut -c1-140)"
exit $rc
