#!/bin/sh
# usage: run_against_seeded.sh <seeded id> <check id> [extra args]
# Applies the seeded patch to /repo, runs the quick check, undoes the patch straight afterwards.
ID="$1"; CHK="$2"; shift 2
cd /repo || exit 2
if [ -n "$(git status --porcelain -- src)" ]; then echo "/repo/src is dirty; refusing"; exit 2; fi
git apply /verif/seeded/$ID/patch.diff || { echo "patch does not apply"; exit 2; }
cd /verif; ./check $CHK --no-evidence "$@" > /tmp/seeded-$ID-$CHK.out 2>&1; rc=$?
git -C /repo checkout -- . 
echo "$ID vs $CHK: exit=$rc $(grep -c '^VIOLATION' /tmp/seeded-$ID-$CHK.out) VIOLATION line(s); $(grep -m1 'violation: oracle' /tmp/seeded-$ID-$CHK.out | cut -c1-140)"
exit $rc
