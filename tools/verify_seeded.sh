#!/bin/sh
# usage: verify_seeded.sh <dir with patch.diff and demo.py>
# Confirms in a scratch worktree of /repo HEAD: clean -> tests pass + demo passes; patched -> tests pass + demo fails.
D="$1"; WT=/tmp/wt-verify-$$
git -C /repo worktree add -q --detach $WT HEAD || exit 2
cd $WT
run_tests() { PYTHONPATH=$WT/src timeout 600 /venv/bin/python -m pytest -q -p no:cacheprovider 2>&1 | tail -1; }
run_demo() { PYTHONPATH=$WT/src timeout 600 /venv/bin/python "$D/demo.py" >/tmp/demo.out.$$ 2>&1; echo "exit=$? $(tail -1 /tmp/demo.out.$$ | cut -c1-150)"; }
echo "clean  tests: $(run_tests)"
echo "clean  demo : $(run_demo)"
if git apply --check "$D/patch.diff" 2>/dev/null; then git apply "$D/patch.diff"; else echo "APPLY: needs 3way"; git apply --3way "$D/patch.diff" 2>&1 | tail -2; fi
git status --short | head -5
echo "patched tests: $(run_tests)"
echo "patched demo : $(run_demo)"
cd /; git -C /repo worktree remove --force $WT; rm -f /tmp/demo.out.$$
