#!/bin/sh
# usage: run_against_refactor.sh <refactor id> <check id> [args]  -- expects exit 0 (no false alarm)
# works on a scratch copy of /repo/src (VERIF_REPO_SRC); /repo is not touched
ID="$1"; CHK="$2"; shift 2
D=$(mktemp -d /dev/shm/vsim-ref-XXXXXX) || exit 2
cp -r /repo/src "$D/src"; mkdir -p "$D/tests"; ln -s /repo/tests/data "$D/tests/data"
patch -p1 -s -d "$D" -i /verif/refactors/$ID/patch.diff || { echo "patch does not apply"; rm -rf "$D"; exit 2; }
cd /verif; VERIF_REPLAY_DIR="$D/replays" VERIF_REPO="$D" VERIF_REPO_SRC="$D/src" ./check $CHK --no-evidence "$@" > /tmp/refactor-$ID-$CHK.out 2>&1; rc=$?
rm -rf "$D"
echo "$ID vs $CHK: exit=$rc $(grep -m1 'violation: oracle' /tmp/refactor-$ID-$CHK.out | cut -c1-160) $(grep -m1 HARNESS /tmp/refactor-$ID-$CHK.out | cut -c1-160)"
exit $rc
