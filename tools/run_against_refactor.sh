#!/bin/sh
# usage: run_against_refactor.sh <refactor id> <check id> [args]  -- expects exit 0 (no false alarm)
ID="$1"; CHK="$2"; shift 2
cd /repo || exit 2
if [ -n "$(git status --porcelain -- src)" ]; then echo "/repo/src is dirty; refusing"; exit 2; fi
git apply /verif/refactors/$ID/patch.diff || { echo "patch does not apply"; exit 2; }
PYTHONPATH=/repo/src /venv/bin/python -m pytest -q -p no:cacheprovider 2>&1 | tail -1
cd /verif; ./check $CHK --no-evidence "$@" > /tmp/refactor-$ID-$CHK.out 2>&1; rc=$?
git -C /repo checkout -- .
echo "$ID vs $CHK: exit=$rc $(grep -m1 'violation: oracle' /tmp/refactor-$ID-$CHK.out | cut -c1-160) $(grep -m1 HARNESS /tmp/refactor-$ID-$CHK.out | cut -c1-160)"
exit $rc
