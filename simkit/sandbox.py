"""Scratch directories on tmpfs with fixed-length names."""

from __future__ import annotations

import os
import shutil
import tempfile

_BASE = None


def base():
    global _BASE
    if _BASE is None:
        cand = os.environ.get("VERIF_SCRATCH") or "/dev/shm/vsim"
        # one fixed-width namespace per check invocation, so that concurrent
        # invocations (a background thorough run, a quick run) never share a
        # directory and path lengths stay constant
        ns = os.environ.get("VERIF_SANDBOX_NS")
        if ns:
            cand = os.path.join(cand, ns)
        try:
            os.makedirs(cand, exist_ok=True)
            probe = os.path.join(cand, f".probe{os.getpid()}")
            with open(probe, "w") as fh:
                fh.write("x")
            os.unlink(probe)
            _BASE = cand
        except OSError:
            _BASE = os.path.join(tempfile.gettempdir(), "vsim")
            os.makedirs(_BASE, exist_ok=True)
    return _BASE


def make(prop, tier, run_seed, tag=""):
    """Fixed-length directory name so that path lengths (which end up inside
    cache-file headers and hence in flush boundaries) do not vary."""
    name = f"{prop}{tier[0]}{run_seed & 0xFFFFFFFF:08x}{tag}"
    path = os.path.join(base(), name)
    shutil.rmtree(path, ignore_errors=True)
    os.makedirs(path)
    return path


def remove(path):
    shutil.rmtree(path, ignore_errors=True)


def remove_namespace():
    ns = os.environ.get("VERIF_SANDBOX_NS")
    if ns and _BASE and _BASE.endswith(ns):
        shutil.rmtree(_BASE, ignore_errors=True)


def snapshot(root):
    """{relative name: (bytes, mtime_ns, is_symlink_target or None)} of a flat directory tree."""
    snap = {}
    for dirpath, dirnames, filenames in os.walk(root):
        dirnames.sort()
        for fn in sorted(filenames):
            p = os.path.join(dirpath, fn)
            rel = os.path.relpath(p, root)
            if os.path.islink(p):
                snap[rel] = (None, os.lstat(p).st_mtime_ns, os.readlink(p))
                continue
            with open(p, "rb") as fh:
                data = fh.read()
            snap[rel] = (data, os.stat(p).st_mtime_ns, None)
    return snap


def restore(root, snap):
    for dirpath, dirnames, filenames in os.walk(root):
        for fn in filenames:
            p = os.path.join(dirpath, fn)
            rel = os.path.relpath(p, root)
            if rel not in snap:
                os.unlink(p)
    for rel, (data, mt, link) in snap.items():
        p = os.path.join(root, rel)
        if link is not None:
            if not (os.path.islink(p) and os.readlink(p) == link):
                if os.path.lexists(p):
                    os.unlink(p)
                os.symlink(link, p)
            os.utime(p, ns=(mt, mt), follow_symlinks=False)
            continue
        cur = None
        try:
            if not os.path.islink(p):
                with open(p, "rb") as fh:
                    cur = fh.read()
        except OSError:
            cur = None
        if cur != data or os.path.islink(p):
            if os.path.lexists(p):
                os.unlink(p)
            os.makedirs(os.path.dirname(p), exist_ok=True)
            with open(p, "wb") as fh:
                fh.write(data)
        os.utime(p, ns=(mt, mt))
