"""Greedy delta-debugging over the candidates a property module proposes."""

from __future__ import annotations

import time


def _fails(mod, obj, oracle):
    try:
        res = mod.replay(obj)
    except Exception:  # noqa: BLE001 - a candidate the executor cannot run is not a reproduction
        return False
    return any(v["oracle"] == oracle for v in res.get("violations", []))


def minimise(mod, obj, oracle, budget_s=60):
    t0 = time.time()
    if not _fails(mod, obj, oracle):
        obj["minimised"] = "original did not reproduce in-process; left as found"
        return obj
    cur = obj
    tried = 0
    progress = True
    while progress and time.time() - t0 < budget_s:
        progress = False
        for cand in mod.shrink_candidates(cur):
            if time.time() - t0 > budget_s:
                break
            tried += 1
            if _fails(mod, cand, oracle):
                cur = cand
                progress = True
                break
    cur["minimised"] = {"candidates_tried": tried, "seconds": round(time.time() - t0, 1)}
    if "found" in obj:
        cur["found"] = obj["found"]
    cur["expect"] = {"oracle": oracle}
    return cur
