#!/venv/bin/python
"""./check <ID> [--tier quick|thorough] [--replay FILE] [--runs N] [--workers N]
   ./check selftest-determinism | sensitivity"""

from __future__ import annotations

import argparse
import importlib
import json
import os
import sys
import time

HERE = os.path.dirname(os.path.abspath(__file__))
VERIF = os.path.dirname(HERE)
if VERIF not in sys.path:
    sys.path.insert(0, VERIF)

os.environ.setdefault("VERIF_SANDBOX_NS", f"p{os.getpid():07d}")

from simkit import repo  # noqa: E402

repo.setup_path()

from simkit import runner, shrink  # noqa: E402

PROPS = {
    "C13": "simkit.props.c13",
    "C15": "simkit.props.c15",
    "C16": "simkit.props.c16",
    "C17": "simkit.props.c17",
    "C18": "simkit.props.c18",
}


def main(argv=None):
    ap = argparse.ArgumentParser()
    ap.add_argument("what")
    ap.add_argument("--tier", default=os.environ.get("VERIF_TIER") or "quick", choices=["quick", "thorough"])
    ap.add_argument("--replay")
    ap.add_argument("--runs", type=int)
    ap.add_argument("--workers", type=int, default=int(os.environ.get("VERIF_WORKERS") or min(16, os.cpu_count() or 1)))
    ap.add_argument("--no-evidence", action="store_true")
    ap.add_argument("--no-shrink", action="store_true")
    ap.add_argument("--digests", help="write per-run digests to this file (determinism self-test)")
    ap.add_argument("--seeds", default="", help="sensitivity: comma-separated VERIF_SEED values to try each seeded change with")
    args = ap.parse_args(argv)
    if args.what == "selftest-determinism":
        from simkit import selftest

        return selftest.determinism(args)
    if args.what == "selftest-crashmodel":
        from simkit import selftest

        return selftest.crashmodel(args)
    if args.what == "specificity":
        from simkit import selftest

        return selftest.specificity(args)
    if args.what == "sensitivity":
        from simkit import selftest

        return selftest.sensitivity(args)
    if args.what not in PROPS:
        print(f"unknown check {args.what!r}; known: {sorted(PROPS)}")
        return runner.EXIT_HARNESS
    mod = importlib.import_module(PROPS[args.what])
    master = int(os.environ.get("VERIF_SEED") or 1)
    if args.replay:
        return do_replay(mod, args.replay)
    return do_check(mod, args, master)


def do_replay(mod, path):
    with open(path) as fh:
        obj = json.load(fh)
    if obj.get("kind") == "whole_run":
        # the run in which the violation was found, repeated from its seed (a violation
        # that needs what earlier evaluations of the same run left behind in the process)
        res = mod.run_one(int(obj["run_seed"]), int(obj["run_index"]), obj.get("tier", "quick"))
    else:
        res = mod.replay(obj)
    want = (obj.get("expect") or {}).get("oracle")
    vs = res.get("violations", [])
    print(f"replay {path}: digest={res.get('digest')} violations={[v['oracle'] for v in vs]}")
    hit = [v for v in vs if want is None or v["oracle"] == want]
    if hit:
        print(hit[0]["detail"][:1200])
        print(f"VIOLATION property={mod.ID} replay={path}")
        return runner.EXIT_VIOLATION
    print("replay did not reproduce the violation")
    return runner.EXIT_OK


def do_check(mod, args, master):
    tier = args.tier
    plan = mod.plan(tier)
    nruns = args.runs or plan["runs"]
    t0 = time.time()
    print(f"[{mod.ID}] tier={tier} VERIF_SEED={master} runs={nruns} workers={args.workers} repo={repo.REPO_SRC}", flush=True)
    agg, digests, wall = runner.run_batch(
        mod, tier, master, nruns, args.workers, plan.get("chunk", 10), plan.get("wall_budget", 3600), plan.get("hang_s", 600)
    )
    # determinism sample: re-execute a few runs in this process
    mism = 0
    resampled = 0
    if not agg.harness_errors and hasattr(mod, "run_one") and plan.get("resample", 0):
        step = max(1, nruns // plan["resample"])
        for i in range(0, nruns, step):
            if digests[i] is None:
                continue
            r = runner.run_isolated(mod, runner.run_seed(master, mod.ID, i), i, tier)
            resampled += 1
            if r.get("digest") != digests[i]:
                mism += 1
    if args.digests:
        with open(args.digests, "w") as fh:
            json.dump(digests, fh)
    known = runner.load_known_findings()
    new_v, known_hits = [], {}
    for v in agg.violations:
        e = runner.match_known(mod.ID, v, known)
        if e is not None:
            known_hits.setdefault(e["id"], (e, v))
        else:
            new_v.append(v)
    rc = runner.EXIT_OK
    lines = []
    for eid, (e, v) in sorted(known_hits.items()):
        lines.append(f"KNOWN-FINDING: property={mod.ID} {e.get('what', eid)}")
    reported = None
    if new_v:
        rc = runner.EXIT_VIOLATION
        v = min(new_v, key=lambda x: x["i"])
        rep = v["replay"]
        rep["found"] = {"VERIF_SEED": master, "run_index": v["i"], "run_seed": v["run_seed"], "tier": tier,
                        "oracle": v["oracle"], "site": v["site"], "detail": v["detail"]}
        if not args.no_shrink and hasattr(mod, "shrink_candidates"):
            rep = shrink.minimise(mod, rep, v["oracle"], budget_s=plan.get("shrink_budget", 60))
        path = runner.write_replay(mod.ID, v, rep)
        try:
            code, out = runner.replay_in_fresh_interpreter(mod.ID, path)
            rep["replay_verified_in_fresh_interpreter"] = code == runner.EXIT_VIOLATION
            if code != runner.EXIT_VIOLATION and hasattr(mod, "full_replay"):
                # the violation needs what the rest of the run did before it (state
                # inside the code under test that outlives one evaluation): fall back
                # to a replay file that repeats the whole run
                rep2 = mod.full_replay(v["replay"])
                if rep2 is not None:
                    rep2["found"] = rep.get("found")
                    rep2["minimised"] = "the minimised replay did not reproduce on its own; this file repeats the whole run"
                    with open(path, "w") as fh:
                        json.dump(rep2, fh, indent=1, default=repr)
                        fh.write("\n")
                    code, out = runner.replay_in_fresh_interpreter(mod.ID, path)
                    rep2["replay_verified_in_fresh_interpreter"] = code == runner.EXIT_VIOLATION
                    rep = rep2
            if code != runner.EXIT_VIOLATION and hasattr(mod, "run_one"):
                # last resort, for every property: repeat the whole run from its seed
                rep3 = {"property": mod.ID, "kind": "whole_run", "run_seed": v["run_seed"], "run_index": v["i"], "tier": tier,
                        "expect": {"oracle": v["oracle"]}, "found": rep.get("found"),
                        "minimised": "the minimised replay did not reproduce on its own; this file repeats the whole run from its seed"}
                with open(path, "w") as fh:
                    json.dump(rep3, fh, indent=1, default=repr)
                    fh.write("\n")
                code, out = runner.replay_in_fresh_interpreter(mod.ID, path)
                rep3["replay_verified_in_fresh_interpreter"] = code == runner.EXIT_VIOLATION
                rep = rep3
        except Exception as e:  # noqa: BLE001
            rep["replay_verified_in_fresh_interpreter"] = f"error: {e!r}"
        with open(path, "w") as fh:
            json.dump(rep, fh, indent=1, default=repr)
            fh.write("\n")
        print(f"[{mod.ID}] violation: oracle={v['oracle']} site={v['site']}\n{v['detail'][:1500]}")
        lines.append(f"VIOLATION property={mod.ID} replay={path}")
        reported = path
    # a check that explored (almost) nothing must not report "held"
    if not agg.harness_errors and (agg.evals == 0 or agg.runs == 0 or agg.discarded > 0.6 * max(1, agg.runs) * getattr(mod, "DISCARD_UNITS_PER_RUN", 1)):
        agg.harness_errors.append((None, f"vacuous batch: runs={agg.runs} evaluations={agg.evals} discarded={agg.discarded}"))
    if agg.harness_errors:
        for i, msg in agg.harness_errors[:3]:
            print(f"HARNESS-ERROR run={i}: {msg}", file=sys.stderr)
        if rc == runner.EXIT_OK:
            rc = runner.EXIT_HARNESS
    extra = {
        "repo_head": repo.repo_head(),
        "determinism_resampled": resampled,
        "determinism_mismatches": mism,
        "violations_distinct": sorted({(v["oracle"], v["site"]) for v in agg.violations})[:20],
        "known_findings_matched": sorted(known_hits),
        "plan": {k: v for k, v in plan.items()},
        "workers": args.workers,
    }
    if hasattr(mod, "evidence_extra"):
        extra.update(mod.evidence_extra(agg))
    if not args.no_evidence:
        runner.write_evidence(mod, tier, master, agg, time.time() - t0, extra, len(new_v))
    print(
        f"[{mod.ID}] runs={agg.runs} evals={agg.evals} events={agg.events} sim_s={agg.sim_seconds} "
        f"classes={len(agg.classes)} digests={len(agg.digests)} discarded={agg.discarded} "
        f"faults={dict(sorted(agg.faults.items()))} violations={len(agg.violations)} new={len(new_v)} "
        f"det_mismatch={mism}/{resampled} wall={time.time() - t0:.1f}s",
        flush=True,
    )
    for ln in lines:
        print(ln)
    if rc == runner.EXIT_OK:
        print(f"[{mod.ID}] OK")
    return rc


if __name__ == "__main__":
    try:
        rc = main()
    except SystemExit:
        raise
    except BaseException as e:  # noqa: BLE001
        import traceback

        traceback.print_exc()
        print(f"HARNESS-ERROR: {e!r}", file=sys.stderr)
        rc = runner.EXIT_HARNESS
    try:
        from simkit import sandbox

        sandbox.base()
        if os.environ.get("VERIF_SANDBOX_NS") == f"p{os.getpid():07d}":
            sandbox.remove_namespace()
    except Exception:  # noqa: BLE001
        pass
    sys.stdout.flush()
    sys.stderr.flush()
    os._exit(rc)
