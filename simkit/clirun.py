"""Running the repo's click CLIs in-process, the way the console script does."""

from __future__ import annotations

import io
import logging
import os
import sys
import traceback


class Result:
    __slots__ = ("code", "stdout", "stderr", "exc")

    def __init__(self, code, stdout, stderr, exc=None):
        self.code, self.stdout, self.stderr, self.exc = code, stdout, stderr, exc

    def __repr__(self):
        return f"<cli exit={self.code} stderr={self.stderr[-200:]!r}>"


def invoke(cli, args, prog="pretext-to-asm", stdin_text=""):
    """cli.main(args, standalone_mode=True) with stdio captured.  An uncaught
    exception is what the interpreter would turn into exit status 1 plus a
    traceback on stderr."""
    out, err = io.StringIO(), io.StringIO()
    old = sys.stdout, sys.stderr, sys.stdin
    sys.stdout, sys.stderr, sys.stdin = out, err, io.StringIO(stdin_text)
    code, exc = 0, None
    try:
        try:
            cli.main(args=[os.fspath(a) for a in args], prog_name=prog, standalone_mode=True)
        except SystemExit as e:
            c = e.code
            if c is None:
                code = 0
            elif isinstance(c, int):
                code = c
            else:
                err.write(str(c) + "\n")
                code = 1
        except Exception as e:  # noqa: BLE001 - what the interpreter reports as a traceback
            exc = e
            err.write("".join(traceback.format_exception(e)))
            traceback.clear_frames(e.__traceback__)
            code = 1
    finally:
        sys.stdout, sys.stderr, sys.stdin = old
    return Result(code, out.getvalue(), err.getvalue(), exc)


def end_of_process():
    """What interpreter shutdown does to logging: flush and close every
    handler (logging.shutdown), then forget them so the next simulated process
    starts with a fresh root logger."""
    root = logging.getLogger()
    for h in list(root.handlers):
        try:
            h.flush()
            h.close()
        except Exception:  # noqa: BLE001
            pass
        root.removeHandler(h)
    root.setLevel(logging.WARNING)
