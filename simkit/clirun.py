"""Running the repo's click CLIs in-process, the way the console script does."""

from __future__ import annotations

import atexit
import io
import logging
import os
import sys
import traceback


class Result:
    __slots__ = ("code", "stdout", "stderr", "exc")

    def __init__(self, code, stdout, stderr, exc=None):
        self.code, self.stdout, self.stderr, self.exc = code, stdout, stderr, exc

    def __repr__(self):
        return f"<cli exit={self.code} stderr={self.stderr[-200:]!r}>"


# -- the process-exit seam ---------------------------------------------------
# Callbacks which the code under test registers with atexit belong to the
# simulated process: they are collected here and run, last registered first,
# when that process ends (end_of_process) - not when the harness exits.
_EXIT_FUNCS = []
_REAL_ATEXIT = (atexit.register, atexit.unregister)


def _sim_register(func, *args, **kwargs):
    _EXIT_FUNCS.append((func, args, kwargs))
    return func


def _sim_unregister(func):
    _EXIT_FUNCS[:] = [e for e in _EXIT_FUNCS if e[0] != func]


def invoke(cli, args, prog="pretext-to-asm", stdin_text=""):
    """cli.main(args, standalone_mode=True) with stdio captured.  An uncaught
    exception is what the interpreter would turn into exit status 1 plus a
    traceback on stderr."""
    out, err = io.StringIO(), io.StringIO()
    old = sys.stdout, sys.stderr, sys.stdin
    sys.stdout, sys.stderr, sys.stdin = out, err, io.StringIO(stdin_text)
    code, exc = 0, None
    atexit.register, atexit.unregister = _sim_register, _sim_unregister
    try:
        try:
            cli.main(args=[os.fspath(a) for a in args], prog_name=prog, standalone_mode=True)
        except SystemExit as e:
            c = e.code
            if c is None:
                code = 0
            elif isinstance(c, int):
                code = c
            else:
                err.write(str(c) + "\n")
                code = 1
        except Exception as e:  # noqa: BLE001 - what the interpreter reports as a traceback
            exc = e
            err.write("".join(traceback.format_exception(e)))
            traceback.clear_frames(e.__traceback__)
            code = 1
    finally:
        atexit.register, atexit.unregister = _REAL_ATEXIT
        sys.stdout, sys.stderr, sys.stdin = old
    return Result(code, out.getvalue(), err.getvalue(), exc)


def end_of_process(killed=False):
    """What interpreter shutdown does: run the atexit callbacks the simulated
    process registered (last first; a killed process runs none), then - the
    callback logging registered first of all - flush and close every logging
    handler, and forget them so the next simulated process starts with a
    fresh root logger."""
    funcs = list(_EXIT_FUNCS)
    del _EXIT_FUNCS[:]
    if not killed:
        for func, args, kwargs in reversed(funcs):
            try:
                func(*args, **kwargs)
            except Exception:  # noqa: BLE001 - the interpreter prints it and carries on
                pass
    root = logging.getLogger()
    for h in list(root.handlers):
        try:
            h.flush()
            h.close()
        except Exception:  # noqa: BLE001
            pass
        root.removeHandler(h)
    root.setLevel(logging.WARNING)
