"""C15 - a stale, partial or concurrently rewritten index cache is never
silently used.  (DESIGN.md section 4.2)

History machine over {REWRITE, DELETE_FAI, DELETE_AGP, LOAD, LOAD_FAULT, RACE}
on one sandbox holding g.fa and whatever cache files history has left.  Every
crash point of the first interrupted load of a history is enumerated, each
followed by a fresh probe load and by the rest of the history.
"""

from __future__ import annotations

import inspect
import copy
import gc
import logging
import os
import random
from pathlib import Path

from .. import gen, sandbox
from ..repo import asm_canon, index_canon
from ..runner import digest_of
from ..sched import Baton, PCTChooser, PhaseChooser, RandomWalkChooser, ReplayChooser
from ..world import fork_call, TICK_NS, Fault, World, is_mutating_op

ID = "C15"
LEVEL = "fault_enumeration"
RULE = (
    "run = seeded history of 1-8 steps over {REWRITE(new content, later mtime), DELETE_FAI, DELETE_AGP, LOAD, "
    "LOAD_FAULT(crash|torn_write|enospc|eio_write|short_write|eio_read|eacces_open|eio_stat|eperm_rename|eio_open+crash|eio_open+torn_write|eperm_rename+crash|eperm_rename+torn_write), RACE(2-3 processes, PCT or random-walk schedule, "
    "optionally one killed)} on generated FASTA contents with swarm knobs (indexer buffer, stdio buffer, text chunk, clock tick rate); "
    "the first LOAD_FAULT of a history is ENUMERATED over every event k of the interrupted load (every stat/open/read/raw write), "
    "each branch followed by a fresh probe load and the rest of the history. An evaluation is one simulated process execution. "
    "A case is distinct+non-trivial by its durable-state class at the start of a load: for .fai and .agp each one of "
    "{absent, current, stale, partial, other} x mtime relation to the FASTA {older, equal, newer}, plus temp-litter present or not, "
    "plus the kind of step that produced it; classes in which both files are current and newer are counted as trivial and excluded."
)
ASSUMPTIONS = [
    "process crashes only: completed write(2)s persist, userspace buffers are lost (no power-loss / un-synced data model)",
    "the FASTA is rewritten only between indexing runs and always with a later mtime than it had (the property's quantifier)",
    "simulated processes are threads of one interpreter under a baton scheduler; module globals (Gap memo, logging root) are shared",
    "reference = the repo's own index_fasta_file run fault-free on the current content with the same buffer knob",
    "record names starting with '#' and records that index to zero rows are not generated (the AGP text format cannot carry them)",
]

FA = "g.fa"
FAI = "g.fa.fai"
AGP = "g.fa.agp"

_IO_BUFS = [1, 2, 3, 7, 16, 61, 64, 100, 4096, 8192]
_IDX_BUFS = [1, 2, 3, 5, 7, 13, 64, 250, 250_000]
_FAULT_KINDS = ["crash", "crash", "crash", "torn_write", "torn_write", "enospc", "eio_write", "short_write", "eio_read", "eacces_open",
                "eio_open+crash", "eio_open+torn_write", "eio_open+crash",  # compound: the first write-open fails, the run goes on and is then interrupted
                "eio_stat", "eperm_rename", "eperm_rename+crash", "eperm_rename+torn_write"]  # stat(2) fails once; rename(2) is refused (and the run is then interrupted)


def make_fault(kind, at, frac=0.0, first_at=0):
    """Fault object for a (possibly compound) kind; for 'a+b' the first write-open
    at or after event `first_at` gets fault a and the process then gets fault b at
    event `at`."""
    if "+" in kind:
        first, second = kind.split("+", 1)
        return Fault(first, first_at, 0.0, then=Fault(second, at, frac))
    return Fault(kind, at, frac)


def last_fired(fo):
    """The fault of a (compound) plan that fired last, or None."""
    hit = None
    while fo is not None:
        if fo.fired:
            hit = fo
        fo = fo.then
    return hit


# ---------------------------------------------------------------------------
# generation
# ---------------------------------------------------------------------------


def gen_case(rng, tier):
    knobs = {
        "idx_buf": rng.choice(_IDX_BUFS),
        "io_buf": rng.choice(_IO_BUFS),
        "read_buf": rng.choice([16, 64, 64, 4096, 4096]),
        "text_chunk": rng.choice(_IO_BUFS),
        "p_tick": rng.choice([0.0, 0.0, 0.2, 1.0]),
        "tick_seed": rng.getrandbits(32),
        "short_reads": rng.random() < 0.2,
        # the --assembly path may be a symbolic link to the real file
        "fa_symlink": rng.random() < 0.12,
    }
    nver = rng.choice([2, 2, 3, 4])
    big = rng.random() < 0.03
    contents = [(gen.gen_many_records(rng) if rng.random() < 0.35 else gen.gen_many_rows(rng)) if big else gen.gen_fasta(rng)]
    if big and rng.random() < 0.25:
        contents = [gen.gen_huge_line(rng)]  # (a line longer than any fixed read limit a scanner may use)
    if big:
        # scale outlier: keep the event count of one load small
        knobs.update({"io_buf": rng.choice([4096, 8192]), "text_chunk": 8192, "read_buf": 4096,
                      "idx_buf": rng.choice([64, 250, 250_000]), "short_reads": False})
    for _ in range(nver - 1):
        contents.append(gen.mutate_fasta(rng, contents[-1]))
    enabled = [k for k in sorted(set(_FAULT_KINDS)) if rng.random() < 0.7] or ["crash"]
    enabled.sort()
    L = rng.choice([1, 2, 2, 3, 3, 4, 4, 5, 6, 8]) if not big else rng.choice([1, 2])
    hist = []
    enumerated = False
    cur_v = 0
    if rng.random() < 0.7:
        hist.append({"op": "LOAD", "entry": _entry(rng), "dt": rng.choice([0, 1, 1, 2])})
    for _ in range(L):
        r = rng.random()
        dt = rng.choice([0, 0, 1, 1, 2, 3, 4, 9, 20])  # quarter-seconds
        if r < 0.28:
            hist.append({"op": "LOAD", "entry": _entry(rng), "dt": dt})
        elif r < 0.48:
            cur_v = rng.choice([v for v in range(nver) if v != cur_v])
            hist.append({"op": "REWRITE", "v": cur_v, "dt": dt})
        elif r < 0.55:
            hist.append({"op": "DELETE_FAI", "dt": dt})
        elif r < 0.62:
            hist.append({"op": "DELETE_AGP", "dt": dt})
        elif r < 0.84:
            kind = rng.choice([k for k in _FAULT_KINDS if k in enabled])
            at = None if not enumerated else rng.randrange(0, 60)
            enumerated = True
            hist.append({
                "op": "LOAD_FAULT", "entry": _entry(rng), "dt": dt,
                "fault": {"kind": kind, "at": at, "frac": rng.choice([0.0, 0.5, rng.random(), rng.random(), -rng.random(), -rng.choice([0.7, 0.9, 0.97])])},
            })
        else:
            n = rng.choice([2, 2, 3])
            r2 = rng.random()
            fault = None
            if r2 < 0.4:
                # "sandwich": A performs i yield-operations, B performs j, A runs to
                # completion, an observer C runs completely, then B finishes.  The
                # first sandwich of a history has j enumerated over every yield
                # point of an indexing run; i is a sampled fraction of that run.
                n = 3
                sched = {"kind": "sandwich", "fi": rng.random(), "i": None,
                         "j": None if not enumerated else rng.randrange(0, 30)}
                enumerated = True
            else:
                sched = (
                    {"kind": "pct", "seed": rng.getrandbits(32), "depth": rng.choice([1, 2, 2, 3])}
                    if r2 < 0.75
                    else {"kind": "walk", "seed": rng.getrandbits(32), "p": rng.choice([0.05, 0.2, 0.5])}
                )
                if rng.random() < 0.4:
                    fault = {
                        "proc": rng.randrange(n),
                        "kind": rng.choice(["crash", "crash", "torn_write", "enospc"]),
                        "at": rng.randrange(0, 50),
                        "frac": rng.random(),
                    }
            hist.append({
                "op": "RACE", "n": n, "entries": [_entry(rng) for _ in range(n)],
                "sched": sched, "fault": fault, "dt": dt,
            })
    if hist[-1]["op"] != "LOAD":
        hist.append({"op": "LOAD", "entry": _entry(rng), "dt": rng.choice([0, 1, 2])})
    return {"knobs": knobs, "contents": contents, "history": hist}


def _entry(rng):
    return "cli" if rng.random() < 0.3 else "auto"


# ---------------------------------------------------------------------------
# execution of one history
# ---------------------------------------------------------------------------


class Violation(Exception):
    pass


class Exec:
    def __init__(self, case, root, tier="quick", enumerate_races=False):
        from tola.fasta import index as index_mod  # the code under test
        from tola.assembly.scripts import pretext_to_asm

        self.index_mod = index_mod
        self.p2a = pretext_to_asm
        self.case = case
        self.knobs = case["knobs"]
        self.root = root
        self.tier = tier
        self.enumerate_races = enumerate_races
        k = self.knobs
        self.world = World(
            root,
            io_buf=k["io_buf"],
            read_buf=k.get("read_buf", 4096),
            text_chunk=k["text_chunk"],
            short_reads=random.Random(k["tick_seed"] ^ 0x5EED) if k.get("short_reads") else None,
            tick_rng=random.Random(0),
            p_tick=k["p_tick"],
        )
        # g.fa is immutable during a step: operations on it commute with
        # everything, so they are not scheduling points (partial-order reduction)
        self.world.nonyield_paths = (FA,)
        self.fa = Path(root) / FA
        self.blobs = [gen.render_fasta(c) for c in case["contents"]]
        self.refs = {}
        self.cur_v = None
        self.violations = []
        self.vkeys = set()
        self.classes = set()
        self.evals = 0
        self.clean = True  # no crash / fault / race so far on this branch
        self.branch = {}  # step index -> explicit decisions on the current branch
        self.discard = False
        self.recovered_first_try = 0
        self.loud_after_fault = 0
        self.samples = []
        self.sched_sigs = set()
        self.enumerating = False

    # -- reference -----------------------------------------------------------
    def reference(self, v):
        """(index canon, assembly canon) of content v, computed by the repo's
        own indexer fault-free on the real file, outside the simulated world."""
        if v not in self.refs:
            with self.world.suspend():
                cur = self.fa.read_bytes() if self.fa.exists() else None
                tmp = Path(self.root) / FA
                # the header line carries the absolute path, so the reference has
                # to be computed on the very same path
                st = os.stat(tmp) if cur is not None else None
                tmp.write_bytes(self.blobs[v])
                def compute():
                    # (with the default buffer - larger than any generated content -, not
                    # with the buffer knob of the history: the reference is the plain
                    # single-chunk scan; that the knob does not matter is C13)
                    idx, asm = self.index_mod.index_fasta_file(tmp, 250_000)
                    return (index_canon(idx), asm_canon(asm))

                # in a forked child: the reference neither sees nor leaves state
                # (memo tables and the like) in the interpreter the history runs in
                kind, val = fork_call(compute)
                ref = val if kind == "ok" else None  # else: the reference rejects this content
                if cur is not None:
                    tmp.write_bytes(cur)
                    os.utime(tmp, ns=(st.st_mtime_ns, st.st_mtime_ns))
                else:
                    tmp.unlink()
            self.refs[v] = ref
        return self.refs[v]

    # -- durable-state classification -------------------------------------
    def _file_class(self, rel, kind):
        p = os.path.join(self.root, rel)
        try:
            st = os.stat(p)
        except OSError:
            return "absent", None
        with open(p, "rb") as fh:
            data = fh.read()
        fa_m = os.stat(self.fa).st_mtime_ns
        rel_m = "older" if st.st_mtime_ns < fa_m else ("equal" if st.st_mtime_ns == fa_m else "newer")
        canon = self.canon_cache(self.cur_v)
        cls = "other"
        if canon is not None:
            if data == canon[kind]:
                cls = "current"
            elif canon[kind].startswith(data):
                cls = "partial"
            else:
                for v in range(len(self.blobs)):
                    c = self.canon_cache(v)
                    if v != self.cur_v and c is not None:
                        if data == c[kind]:
                            cls = "stale"
                            break
                        if c[kind].startswith(data):
                            cls = "partial-stale"
        return cls, rel_m

    def canon_cache(self, v):
        """Bytes of the cache files a fault-free cold load of content v writes
        (used for reach classification only, never as an oracle)."""
        key = ("canon", v)
        if key not in self.refs:
            if self.reference(v) is None:
                self.refs[key] = None
                return None
            with self.world.suspend():
                snap = sandbox.snapshot(self.root)
                for rel in list(snap):
                    if rel != FA:
                        os.unlink(os.path.join(self.root, rel))
                self.fa.write_bytes(self.blobs[v])
                def compute():
                    fi = self.index_mod.FastaIndex(self.fa, self.knobs["idx_buf"])
                    fi.run_indexing()
                    fi = None
                    return {
                        "fai": (Path(self.root) / FAI).read_bytes(),
                        "agp": (Path(self.root) / AGP).read_bytes(),
                    }

                kind, val = fork_call(compute)
                out = val if kind == "ok" else None
                sandbox.restore(self.root, snap)
            self.refs[key] = out
        return self.refs[key]

    def state_class(self, how):
        fc, fm = self._file_class(FAI, "fai")
        ac, am = self._file_class(AGP, "agp")
        litter = any(
            n not in (FA, FAI, AGP, "store") for n in os.listdir(self.root)
        )
        w = self.world
        if fm == "equal" or am == "equal":
            w.probe("tie_mtime_load")
        if (fc.startswith("partial") and fm == "newer") or (ac.startswith("partial") and am == "newer"):
            w.probe("partial_newer_than_fasta")
        if fc != "absent" and ac == "absent":
            w.probe("fai_without_agp")
        if litter:
            w.probe("temp_litter_present")
        trivial = fc == "current" and ac == "current" and fm == "newer" and am == "newer" and not litter
        cls = f"fai={fc}/{fm} agp={ac}/{am} litter={int(litter)} after={how}"
        if not trivial:
            self.classes.add(cls)
        return cls

    # -- bodies ------------------------------------------------------------
    def body(self, entry):
        fa = self.fa
        b = self.knobs["idx_buf"]
        if entry == "cli":
            p2a = self.p2a

            def run():
                asm, fai = p2a.parse_assembly_file(fa)
                return fai.index, fai.assembly, asm

            return run
        FastaIndex = self.index_mod.FastaIndex

        def run():
            fi = FastaIndex(fa, b)
            fi.auto_load()
            return fi.index, fi.assembly, fi.assembly

        return run

    def _needs_rebuild(self):
        with self.world.suspend():
            fm = os.stat(self.fa).st_mtime_ns
            for rel in (FAI, AGP):
                try:
                    st = os.stat(os.path.join(self.root, rel))
                except OSError:
                    return True
                if not st.st_mtime_ns > fm:
                    return True
        return False

    def _ident(self, rel):
        try:
            st = os.stat(os.path.join(self.root, rel))
        except OSError:
            return None
        return (st.st_ino, st.st_ctime_ns, st.st_mtime_ns, st.st_size)

    # -- violations ----------------------------------------------------------
    def violate(self, oracle, site, detail, step_i):
        key = (oracle, site)
        if key in self.vkeys:
            return
        self.vkeys.add(key)
        hist = copy.deepcopy(self.case["history"][: step_i + 1])
        for j, st in enumerate(hist):
            b = self.branch.get(j)
            if not b:
                continue
            if st["op"] == "LOAD_FAULT" and "at" in b:
                st["fault"]["at"] = b["at"]
                if b.get("first_at"):
                    st["fault"]["first_at"] = b["first_at"]
                if "frac" in b:
                    st["fault"]["frac"] = b["frac"]
            if st["op"] == "RACE":
                if "choices" in b:
                    st["sched"] = {"kind": "replay", "choices": b["choices"]}
                if "sandwich" in b:
                    st["sched"] = {"kind": "sandwich", "i": b["sandwich"][0], "j": b["sandwich"][1]}
                if st.get("fault") and "at" in b:
                    st["fault"]["at"] = b["at"]
        if hist[-1]["op"] != "LOAD" or self.branch.get("probe"):
            hist.append({"op": "LOAD", "entry": self.branch.get("probe_entry", "auto"), "dt": 0, "probe": True})
        self.violations.append({
            "oracle": oracle,
            "site": site,
            "detail": detail[:1500],
            "replay": {
                "property": ID,
                "knobs": self.knobs,
                "contents": self.case["contents"],
                "history": hist,
                "expect": {"oracle": oracle},
            },
        })

    def _fault_site(self):
        """Describes the most recent fault on this branch, as a site signature."""
        return self.branch.get("site", "no-fault")

    # -- checking one finished load -----------------------------------------
    def check_load(self, proc, step_i, faulted, pre, how):
        self.evals += 1
        ref = self.reference(self.cur_v)
        out = proc.outcome
        if out[0] == "returned":
            idx, asm, _ = out[1]
            got = (index_canon(idx) if idx is not None else None, asm_canon(asm) if asm is not None else None)
            # O5: whatever was returned must be one index/assembly PAIR: the same
            # sequences in the same order, each scaffold as long as its index entry
            # (independent of the reference, which comes from the same indexer)
            if got[0] is not None and got[1] is not None:
                inames = [e[0] for e in got[0]]
                snames = [sc[0] for sc in got[1][2]]
                bad_pair = None
                if inames != snames:
                    bad_pair = f"index names {inames} but assembly scaffolds {snames}"
                else:
                    for e, sc in zip(got[0], got[1][2]):
                        tot = sum((r[1] if r[0] == "G" else r[3] - r[2] + 1) for r in sc[1])
                        if tot != e[1]:
                            bad_pair = f"sequence {e[0]!r}: index length {e[1]} but the scaffold's rows cover {tot}"
                            break
                if bad_pair:
                    self.violate("O5_index_assembly_mismatch", self._fault_site(),
                                 f"{how}: load returned an index and an assembly that do not describe the same sequences: {bad_pair}", step_i)
                    return
            if got != ref:
                what = "index" if got[0] != ref[0] else "assembly"
                self.violate(
                    "O1_wrong_data_returned", self._fault_site(),
                    f"{how}: load returned normally with a wrong {what}.\n got={got!r}\n ref={ref!r}", step_i,
                )
                return
            if not self.clean and not faulted:
                self.recovered_first_try += 1
            if pre is not None and pre["needs_rebuild"] and not faulted and proc.nevents > 0:
                self._check_rebuilt(proc, step_i, pre, how)
        elif out[0] == "raised":
            if faulted or not self.clean:
                self.loud_after_fault += 1
            else:
                self.violate(
                    "O2_spurious_failure", "fault-free-history",
                    f"{how}: load raised {out[1]!r} although no crash, fault or race ever happened", step_i,
                )
        elif out[0] == "crashed":
            pass
        elif out[0] == "exit":
            if faulted or not self.clean:
                self.loud_after_fault += 1
            else:
                self.violate("O2_spurious_failure", "fault-free-history", f"{how}: load exited with {out[1]!r}", step_i)

    def _check_rebuilt(self, proc, step_i, pre, how):
        """O3: both cache files were rebuilt, together, and now describe the
        current content."""
        w = self.world
        mutated = set()
        for (pid, _n, op, rel, _nb, note) in w.trace[proc.trace_start:]:
            if pid != proc.pid or note.startswith("failed"):
                continue
            if op in ("write", "truncate", "replace", "rename", "link") or (
                op.startswith("open:") and any(c in op[5:] for c in "wx")
            ) or (op.startswith("osopen:") and ("T" in op[7:] or "C" in op[7:])):
                mutated.add(rel)
        not_rebuilt = []
        with w.suspend():
            for rel in (FAI, AGP):
                ident = self._ident(rel)
                if ident is None:
                    not_rebuilt.append(rel + " (missing after the load)")
                elif rel not in mutated and ident == pre["ident"][rel]:
                    not_rebuilt.append(rel)
        if not_rebuilt:
            self.violate(
                "O3_not_rebuilt_together", "rebuild:" + ",".join(x.split(" ")[0] for x in not_rebuilt),
                f"{how}: a cache file was missing or not strictly newer than the FASTA ({pre['why']}), "
                f"the load returned normally, but these were not rebuilt: {not_rebuilt}", step_i,
            )
            return
        # what is on disk now must give the reference when it is loaded again
        # (through the public entry point: how the cache is validated is the
        # implementation's business)
        ref = self.reference(self.cur_v)
        with w.suspend():
            snap = sandbox.snapshot(self.root)
            try:
                fi = self.index_mod.FastaIndex(self.fa, self.knobs["idx_buf"])
                fi.auto_load()
                got = (index_canon(fi.index), asm_canon(fi.assembly))
            except Exception as e:  # noqa: BLE001
                got = ("unreadable", repr(e))
            fi = None
            sandbox.restore(self.root, snap)
        if got != ref:
            self.violate(
                "O3_rebuilt_cache_wrong", "rebuild-content",
                f"{how}: after a successful rebuild the cache files on disk do not describe the current content.\n"
                f" got={got!r}\n ref={ref!r}", step_i,
            )

    def _pre_state(self):
        with self.world.suspend():
            fm = os.stat(self.fa).st_mtime_ns
            why = []
            ident = {}
            for rel in (FAI, AGP):
                ident[rel] = self._ident(rel)
                if ident[rel] is None:
                    why.append(rel + " missing")
                elif not ident[rel][2] > fm:
                    why.append(rel + " not strictly newer")
        return {"needs_rebuild": bool(why), "why": "; ".join(why), "ident": ident}

    # -- steps ---------------------------------------------------------------
    def do_rewrite(self, v):
        w = self.world
        with w.suspend():
            try:
                prev = os.stat(self.fa).st_mtime_ns // TICK_NS
            except OSError:
                prev = None
            # "rewritten with a later mtime": at least one tick (0.25 s) after the
            # FASTA's previous mtime, and never before now.  Nothing here looks at
            # the cache files: a cache mtime that lies in the future is the code's
            # own doing.
            when = w.clock if prev is None else max(prev + 1, w.clock)
            if when > w.clock:
                w.advance(when - w.clock)
            target = str(self.fa)
            if self.knobs.get("fa_symlink"):
                store = os.path.join(self.root, "store")
                os.makedirs(store, exist_ok=True)
                target = os.path.join(store, "actual.fa")
                if not os.path.islink(self.fa):
                    if os.path.lexists(self.fa):
                        os.unlink(self.fa)
                    os.symlink(os.path.join("store", "actual.fa"), self.fa)
                    os.utime(self.fa, ns=(w.clock * TICK_NS, w.clock * TICK_NS), follow_symlinks=False)
            tmp = target + ".env"
            with open(tmp, "wb") as fh:
                fh.write(self.blobs[v])
            os.replace(tmp, target)
            w.stamp_path(target, when)
        self.cur_v = v

    def do_delete(self, rel):
        with self.world.suspend():
            try:
                os.unlink(os.path.join(self.root, rel))
            except FileNotFoundError:
                pass

    def do_load(self, step_i, entry, fault, how, pid):
        w = self.world
        self.state_class(how)
        pre = self._pre_state()
        proc = w.run_solo(self.body(entry), name=how, fault=fault, pid=pid)
        hit = last_fired(fault)
        faulted = hit is not None
        if faulted:
            fault = hit
            self.branch["site"] = f"{fault.kind}@{fault.where[0].split(':')[0]}:{fault.where[1].replace(str(proc.pid), 'PID')}"
            if fault.where[1] == AGP and any(
                t[0] == proc.pid and t[3] == FAI and t[2] in ("write", "replace") for t in w.trace[proc.trace_start:]
            ):
                w.probe("crash_between_cache_files")
        self.check_load(proc, step_i, faulted, pre, how)
        if faulted:
            self.clean = False
        return proc

    def do_race(self, step_i, st, fault_at):
        w = self.world
        n = st["n"]
        self.state_class("race")
        procs = []
        for i in range(n):
            p = w.new_proc(f"race{i}", pid=100 + step_i * 10 + i)
            procs.append(p)
        f = st.get("fault")
        fobj = None
        if f is not None and fault_at is not None:
            fobj = Fault(f["kind"], fault_at, f.get("frac", 0.0))
            procs[f["proc"] % n].fault = fobj
        sc = st["sched"]
        if sc["kind"] == "replay":
            chooser = ReplayChooser(sc["choices"])
        elif sc["kind"] == "sandwich":
            chooser = PhaseChooser(procs, [(0, sc["i"]), (1, sc["j"]), (0, None), (2, None), (1, None)])
        elif sc["kind"] == "pct":
            chooser = PCTChooser(random.Random(sc["seed"]), [p.pid for p in procs], sc["depth"], 40 * n)
        else:
            chooser = RandomWalkChooser(random.Random(sc["seed"]), sc["p"])
        baton = Baton(w, chooser)
        bodies = [(p, self.body(st["entries"][i % len(st["entries"])])) for i, p in enumerate(procs)]
        baton.run(bodies)
        self.branch[step_i] = {"choices": list(baton.decisions)}
        if sc["kind"] == "sandwich":
            self.branch[step_i] = {"sandwich": (sc["i"], sc["j"])}
        if fobj is not None:
            self.branch[step_i]["at"] = fault_at
            if fobj.fired:
                self.branch["site"] = f"race+{fobj.kind}@{fobj.where[0].split(':')[0]}:" + fobj.where[1]
        if not (fobj is not None and fobj.fired) and "site" not in self.branch:
            self.branch["site"] = "race"
        elif not (fobj is not None and fobj.fired) and self.clean:
            self.branch["site"] = "race"
        # probes over the race trace
        self._race_probes(procs)
        self.clean = False
        for p in procs:
            self.check_load(p, step_i, p.fault is not None and p.fault.fired, None, f"race[{n}]")
        w.probe("race_switches", baton.switches)
        sig = tuple((pid, op.split(":")[0], rel.replace(FA, "")) for (pid, _n, op, rel, _b, _t) in w.trace[procs[0].trace_start:])
        self.sched_sigs.add(digest_of(sig)[:12])
        return procs

    def _race_probes(self, procs):
        w = self.world
        tr = w.trace[procs[0].trace_start:]
        writers = {}
        for (pid, _n, op, rel, _nb, _note) in tr:
            if op == "write":
                s = writers.setdefault(rel, [])
                if not s or s[-1] != pid:
                    s.append(pid)
        if any(len(set(v)) > 1 and len(v) > 2 for v in writers.values()):
            w.probe("two_writers_same_file_overlapped")
        first_fai_write = {}
        for i, (pid, _n, op, rel, _nb, _note) in enumerate(tr):
            if rel == FAI and (op in ("write", "replace") or op.startswith("open:w")):
                first_fai_write.setdefault(pid, i)
        for (pid, _n, op, rel, _nb, _note) in tr:
            if op == "stat" and rel == AGP and any(q != pid for q in first_fai_write):
                w.probe("reader_checked_agp_while_other_writes")
                break

    # -- the driver ------------------------------------------------------------
    def run(self):
        w = self.world
        for v in range(len(self.blobs)):
            if self.reference(v) is None:
                self.discard = True
                return
        # O6: the reference is the repo's own scanner; what the generator KNOWS about the
        # content (sequence names in file order, number of residues of each) must be what
        # the scanner reports, or "the index of the current content" means nothing
        for v in range(len(self.blobs)):
            # (name, residues, offset of the first residue, residues on the first line, that line with its ending)
            offs, pos = [], 0
            for ln in self.blobs[v].splitlines(keepends=True):
                pos += len(ln)
                if ln[:1] == b">":
                    offs.append(pos)
            want = []
            for k, r in enumerate(self.case["contents"][v]["records"]):
                rpl = min(r["width"], len(r["seq"]))
                want.append((r["name"], len(r["seq"]), offs[k], rpl, rpl + (2 if r["crlf"] else 1)))
            got = [tuple(t) for t in self.reference(v)[0]]
            if got != want:
                bad = next((k for k, (a, b) in enumerate(zip(got, want)) if a != b), min(len(got), len(want)))
                self.violate("O6_scan_disagrees_with_content", "reference",
                             f"content version {v}: the scanner reports {got[bad:bad + 2]} where the file holds {want[bad:bad + 2]} "
                             f"({len(got)} vs {len(want)} records)", 0)
                return
        with w:
            root_logger = logging.getLogger()
            old_handlers = list(root_logger.handlers)
            for h in old_handlers:
                root_logger.removeHandler(h)
            nullh = logging.NullHandler()
            root_logger.addHandler(nullh)
            old_defaults = inspect.unwrap(self.index_mod.FastaIndex.__init__).__defaults__
            inspect.unwrap(self.index_mod.FastaIndex.__init__).__defaults__ = (self.knobs["idx_buf"],)
            gc_was = gc.isenabled()
            gc.disable()
            try:
                for v in range(len(self.blobs)):
                    self.canon_cache(v)  # (forks: done before any simulated process or thread exists)
                self.do_rewrite(0)
                self.run_from(0)
            finally:
                if gc_was:
                    gc.enable()
                inspect.unwrap(self.index_mod.FastaIndex.__init__).__defaults__ = old_defaults
                root_logger.removeHandler(nullh)
                for h in old_handlers:
                    root_logger.addHandler(h)

    def _seed_ticks(self, j, k):
        # every per-event random stream restarts at a step boundary, so that a
        # replay of one branch sees the same ticks and short reads as the
        # enumeration that found it
        self.world.tick_rng.seed(f"{self.knobs['tick_seed']}:{j}:{k}")
        if self.world.short_reads is not None:
            self.world.short_reads.seed(f"{self.knobs['tick_seed']}:sr:{j}")

    def probe_load(self, step_i, how):
        """Branch: a fresh fault-free load on a copy of the current durable
        state; the main history then continues from the state before it."""
        w = self.world
        with w.suspend():
            snap = sandbox.snapshot(self.root)
        clock = (w.clock, w.sim_seconds)
        clean, site = self.clean, self.branch.get("site")
        self.branch["probe"] = True
        self._seed_ticks(step_i, "probe")
        self.do_load(step_i, "auto", None, how + "+probe", pid=100 + step_i * 10 + 9)
        self.branch.pop("probe", None)
        self.clean = clean
        if site is not None:
            self.branch["site"] = site
        with w.suspend():
            sandbox.restore(self.root, snap)
        w.clock, w.sim_seconds = clock

    def run_from(self, start):
        w = self.world
        hist = self.case["history"]
        for j in range(start, len(hist)):
            st = hist[j]
            w.advance(st.get("dt", 0))
            op = st["op"]
            pid = 100 + j * 10
            if op == "REWRITE":
                self.do_rewrite(st["v"])
            elif op == "DELETE_FAI":
                self.do_delete(FAI)
            elif op == "DELETE_AGP":
                self.do_delete(AGP)
            elif op == "LOAD":
                self._seed_ticks(j, "-")
                self.do_load(j, st["entry"], None, "load", pid)
            elif op == "LOAD_FAULT":
                f = st["fault"]
                if f["at"] is None and self.enumerating:
                    # only one enumeration per branch: inside another step's
                    # enumeration this one is sampled
                    f = dict(f, at=random.Random(f"{self.knobs['tick_seed']}:at:{j}").randrange(0, 60))
                    st = dict(st, fault=f)
                if f["at"] is None:
                    self.enumerating = True
                    try:
                        self._enumerate_load_fault(j, st)
                    finally:
                        self.enumerating = False
                    return
                self._seed_ticks(j, f["at"])
                self.branch[j] = {"at": f["at"], "first_at": f.get("first_at", 0)}
                fo = make_fault(f["kind"], f["at"], f.get("frac", 0.0), f.get("first_at", 0))
                self.do_load(j, st["entry"], fo, "load+" + f["kind"], pid)
                if last_fired(fo) is not None:
                    self.probe_load(j, "after-" + f["kind"])
            elif op == "RACE" and st["sched"]["kind"] == "sandwich" and (
                st["sched"].get("i") is None or st["sched"].get("j") is None
            ):
                if self.enumerating and st["sched"].get("j") is None:
                    sc = dict(st["sched"], j=random.Random(f"{self.knobs['tick_seed']}:j:{j}").randrange(0, 30))
                    st = dict(st, sched=sc)
                was = self.enumerating
                self.enumerating = True
                try:
                    self._enumerate_sandwich(j, st)
                finally:
                    self.enumerating = was
                return
            elif op == "RACE":
                f = st.get("fault")
                if f is not None and self.enumerate_races and f.get("at") is not None and not self.enumerating:
                    self.enumerating = True
                    try:
                        self._enumerate_race(j, st)
                    finally:
                        self.enumerating = False
                    return
                self._seed_ticks(j, "-")
                self.do_race(j, st, f["at"] if f else None)
                self.probe_load(j, "after-race")
            else:
                raise ValueError(op)

    def _save(self):
        w = self.world
        with w.suspend():
            snap = sandbox.snapshot(self.root)
        return (snap, w.clock, w.sim_seconds, self.clean, dict(self.branch), self.cur_v)

    def _load(self, saved):
        w = self.world
        snap, clock, sims, clean, branch, cur_v = saved
        with w.suspend():
            sandbox.restore(self.root, snap)
        w.clock = clock
        w.sim_seconds = sims
        self.clean = clean
        self.branch = dict(branch)
        self.cur_v = cur_v

    def _enumerate_load_fault(self, j, st):
        w = self.world
        f = st["fault"]
        saved = self._save()
        # learn the event count of the fault-free execution of this step
        compound = "+" in f["kind"]
        first_ats = [0]
        if compound:
            # the failing open may be that of the first or of the second cache file:
            # learn where the write-opens of a fault-free run are
            self._seed_ticks(j, "learn0")
            p0 = w.run_solo(self.body(st["entry"]), name="learn0", pid=100 + j * 10)
            self.evals += 1
            if f["kind"].startswith("eperm_rename"):
                wo = [t[1] for t in w.trace[p0.trace_start:] if t[0] == p0.pid and t[2] in ("replace", "rename")]
            else:
                wo = [t[1] for t in w.trace[p0.trace_start:] if t[0] == p0.pid and t[2].startswith("open:") and is_mutating_op(t[2])]
            first_ats = [0] + ([wo[0] + 1] if len(wo) > 1 else [])
        w.probe("enumerated_steps")
        for first_at in first_ats:
            self._load(saved)
            self._seed_ticks(j, "learn")
            # (for a compound kind the points of the second fault are those of the run
            # in which the first one has already fired)
            learn_fault = Fault(f["kind"].split("+")[0], first_at) if compound else None
            proc = w.run_solo(self.body(st["entry"]), name="learn", pid=100 + j * 10, fault=learn_fault)
            n = proc.nevents
            self.evals += 1
            evs = [t for t in w.trace[proc.trace_start:] if t[0] == proc.pid]
            ks = representative_points(f["kind"].split("+")[-1], evs, n, random.Random(self.knobs["tick_seed"] ^ j))
            cap = 96 if self.tier == "quick" else 400
            if len(ks) > cap:
                ks = sorted(random.Random(self.knobs["tick_seed"] ^ (j + 99)).sample(ks, cap))
                w.probe("fault_enumeration_sampled")
            w.probe("events_in_enumerated_steps", n)
            w.probe("enumerated_fault_points", len(ks))
            fracs = [f.get("frac", 0.0)]
            if f["kind"].split("+")[-1] in ("torn_write", "short_write") and len(ks) <= 8:
                # few, large writes: also cut them on line boundaries at several depths
                fracs += [q for q in (-0.3, -0.6, -0.85, -0.97) if q != fracs[0]]
                w.probe("line_boundary_cuts_enumerated")
            for k, frac in [(k, q) for k in ks for q in fracs]:
                self._load(saved)
                self._seed_ticks(j, k)
                self.branch[j] = {"at": k, "first_at": first_at, "frac": frac}
                fo = make_fault(f["kind"], k, frac, first_at)
                self.do_load(j, st["entry"], fo, "load+" + f["kind"], 100 + j * 10)
                if last_fired(fo) is not None:
                    self.probe_load(j, "after-" + f["kind"])
                self.run_from(j + 1)
                if len(self.violations) >= 6:
                    break
        # and the branch where the step is not interrupted at all
        self._load(saved)
        self._seed_ticks(j, "-")
        self.branch[j] = {"at": 10 ** 6}
        self.do_load(j, st["entry"], None, "load", 100 + j * 10)
        self.run_from(j + 1)

    def _enumerate_sandwich(self, j, st):
        """Learn how many yield-operations an indexing run performs in this
        state, fix i, and run the sandwich for every j."""
        w = self.world
        sc = st["sched"]
        saved = self._save()
        self._seed_ticks(j, "learn")
        proc = w.run_solo(self.body(st["entries"][0]), name="learn", pid=100 + j * 10)
        self.evals += 1
        ny = sum(1 for t in w.trace[proc.trace_start:] if t[0] == proc.pid and t[3] not in w.nonyield_paths)
        i = sc["i"] if sc.get("i") is not None else int(sc.get("fi", 0.5) * (ny + 1))
        js = [sc["j"]] if sc.get("j") is not None else list(range(ny + 1))
        cap = 48 if self.tier == "quick" else 160
        if len(js) > cap:
            # tiny stdio buffers turn one cache write into hundreds of raw writes:
            # sample the schedule points instead of enumerating all of them
            js = sorted(random.Random(self.knobs["tick_seed"] ^ (j + 77)).sample(js, cap))
            w.probe("sandwich_enumeration_sampled")
        w.probe("enumerated_sandwich_steps")
        w.probe("enumerated_sandwich_schedules", len(js))
        for jj in js:
            self._load(saved)
            self._seed_ticks(j, jj)
            st2 = dict(st)
            st2["sched"] = {"kind": "sandwich", "i": i, "j": jj}
            self.do_race(j, st2, None)
            self.probe_load(j, "after-race")
            self.run_from(j + 1)
            if len(self.violations) >= 6:
                break

    def _enumerate_race(self, j, st):
        w = self.world
        saved = self._save()
        self._seed_ticks(j, "learn")
        procs = self.do_race(j, st, None)
        f = st["fault"]
        victim = procs[f["proc"] % st["n"]]
        n = victim.nevents
        evs = [t for t in w.trace[victim.trace_start:] if t[0] == victim.pid]
        ks = representative_points(f["kind"], evs, n, random.Random(self.knobs["tick_seed"] ^ j))
        w.probe("enumerated_race_fault_points", len(ks))
        for k in ks:
            self._load(saved)
            self._seed_ticks(j, k)
            self.do_race(j, st, k)
            self.probe_load(j, "after-race")
            self.run_from(j + 1)
            if len(self.violations) >= 6:
                break


def representative_points(kind, evs, n, rng):
    """Event numbers at which injecting `kind` gives pairwise different
    executions.  A crash before event k leaves exactly the effects of the
    events < k, so crash points separated only by non-mutating events (stat,
    read) are the same durable state and one representative is enough: k = 0
    and every k that directly follows a mutating event.  Write faults fire at
    the first raw write at or after k, so one k per write event; likewise for
    write-opens (eacces) and a sample of reads (eio_read has no durable effect)."""
    ops = {t[1]: t[2] for t in evs}
    if kind == "crash":
        ks = [0] + [k for k in range(1, n) if k - 1 in ops and is_mutating_op(ops[k - 1])]
    elif kind in ("torn_write", "enospc", "eio_write", "short_write"):
        ks = [k for k in range(n) if ops.get(k) == "write"]
    elif kind == "eacces_open":
        ks = [k for k in range(n) if ops.get(k, "").startswith("open:") and is_mutating_op(ops[k])]
    elif kind == "eio_stat":
        ks = [k for k in range(n) if ops.get(k) == "stat"]
    elif kind == "eperm_rename":
        ks = [k for k in range(n) if ops.get(k) in ("replace", "rename")]
    elif kind == "eio_read":
        reads = [k for k in range(n) if ops.get(k) == "read"]
        ks = sorted(set(reads[:2] + reads[-1:] + (rng.sample(reads, min(4, len(reads))) if reads else [])))
    else:
        ks = list(range(n))
    return ks


# ---------------------------------------------------------------------------
# entry points used by the runner
# ---------------------------------------------------------------------------


def execute_case(case, run_seed, tier, tag=""):
    root = sandbox.make(ID, tier, run_seed, tag)
    try:
        ex = Exec(case, root, tier, enumerate_races=(tier == "thorough"))
        ex.run()
        w = ex.world
        res = {
            "digest": digest_of(w.trace),
            "events": w.events,
            "sim_seconds": w.sim_seconds,
            "faults": dict(w.faults_fired),
            "probes": dict(w.probes),
            "classes": sorted(ex.classes),
            "evals": ex.evals,
            "violations": ex.violations,
            "discarded": 1 if ex.discard else 0,
            "sets": {"schedule_signatures": sorted(ex.sched_sigs)},
            "extra": {
                "recovered_on_first_fault_free_load": ex.recovered_first_try,
                "loud_failures_after_fault": ex.loud_after_fault,
            },
        }
        return res
    finally:
        sandbox.remove(root)


def run_one(run_seed, i, tier):
    rng = random.Random(run_seed)
    case = gen_case(rng, tier)
    res = execute_case(case, run_seed, tier)
    if i < 3:
        res["sample"] = {
            "run_seed": run_seed,
            "knobs": case["knobs"],
            "fasta_versions": [gen.render_fasta(c).decode("ascii", "replace")[:200] for c in case["contents"]],
            "history": case["history"],
        }
    return res


def replay(obj, run_seed=0):
    """Executes a replay file; returns the list of violations found."""
    case = {"knobs": obj["knobs"], "contents": obj["contents"], "history": obj["history"]}
    res = execute_case(case, run_seed or 0xC15, "quick", tag="r")
    return res


def shrink_candidates(obj):
    """Yields simpler variants of a replay object (ddmin-style, cheapest first)."""
    hist = obj["history"]
    # drop steps
    for j in range(len(hist)):
        c = copy.deepcopy(obj)
        del c["history"][j]
        if c["history"]:
            yield c
    # simplify steps
    for j, st in enumerate(hist):
        if st["op"] == "RACE":
            if st["n"] > 2:
                c = copy.deepcopy(obj)
                c["history"][j]["n"] = 2
                yield c
            if st.get("fault"):
                c = copy.deepcopy(obj)
                c["history"][j]["fault"] = None
                yield c
            sc = st["sched"]
            if sc["kind"] == "replay" and sc["choices"]:
                ch = sc["choices"]
                # replace a switch by "continue" (= repeat the previous choice)
                for i in range(1, len(ch)):
                    if ch[i] != ch[i - 1]:
                        c = copy.deepcopy(obj)
                        c["history"][j]["sched"]["choices"][i] = ch[i - 1]
                        yield c
        if st.get("entry") == "cli":
            c = copy.deepcopy(obj)
            c["history"][j]["entry"] = "auto"
            yield c
        if st.get("dt", 0) > 0:
            c = copy.deepcopy(obj)
            c["history"][j]["dt"] = 0
            yield c
        if st["op"] == "LOAD_FAULT" and st["fault"]["kind"] != "crash" and "+" not in st["fault"]["kind"]:
            c = copy.deepcopy(obj)
            c["history"][j]["fault"]["kind"] = "crash"
            yield c
        if st["op"] == "LOAD_FAULT" and isinstance(st["fault"].get("at"), int):
            at = st["fault"]["at"]
            for na in sorted({at // 2, at - 5, at - 2, at - 1}):
                if 0 <= na < at:
                    c = copy.deepcopy(obj)
                    c["history"][j]["fault"]["at"] = na
                    yield c
        if st["op"] == "RACE" and st["sched"]["kind"] == "sandwich":
            for key in ("i", "j"):
                v = st["sched"].get(key)
                if isinstance(v, int):
                    for nv in sorted({v // 2, v - 3, v - 1}):
                        if 0 <= nv < v:
                            c = copy.deepcopy(obj)
                            c["history"][j]["sched"][key] = nv
                            yield c
    # contents: unused versions, fewer records, shorter records
    used = {0} | {st["v"] for st in hist if st["op"] == "REWRITE"}
    tiny = {"records": [{"name": "a", "desc": "", "seq": "A", "width": 60, "crlf": False}], "final_newline": True}
    for vi, spec in enumerate(obj["contents"]):
        if vi not in used:
            if spec != tiny:
                c = copy.deepcopy(obj)
                c["contents"][vi] = copy.deepcopy(tiny)
                yield c
            continue
        recs = spec["records"]
        if len(recs) > 1:
            for r in range(len(recs)):
                c = copy.deepcopy(obj)
                del c["contents"][vi]["records"][r]
                yield c
        for r, rec in enumerate(recs):
            if len(rec["seq"]) > 1:
                c = copy.deepcopy(obj)
                c["contents"][vi]["records"][r]["seq"] = rec["seq"][: max(1, len(rec["seq"]) // 2)]
                yield c
            if rec["crlf"] or rec["desc"]:
                c = copy.deepcopy(obj)
                c["contents"][vi]["records"][r]["crlf"] = False
                c["contents"][vi]["records"][r]["desc"] = ""
                yield c
    # knobs towards defaults
    defaults = {"idx_buf": 250_000, "io_buf": 8192, "text_chunk": 8192, "p_tick": 1.0, "short_reads": False}
    for k, dv in defaults.items():
        if obj["knobs"].get(k) != dv:
            c = copy.deepcopy(obj)
            c["knobs"][k] = dv
            yield c


def plan(tier):
    if tier == "thorough":
        return {"runs": 60000, "chunk": 50, "wall_budget": 3300, "resample": 100, "shrink_budget": 120}
    return {"runs": 1600, "chunk": 20, "wall_budget": 900, "resample": 30, "shrink_budget": 60}
