"""C18 - overlap results keep span and content consistent under every edit
sequence.  (DESIGN.md section 4.5)

No I/O, clock or thread is involved, so nothing is injected or scheduled: what
applies from deterministic simulation is the history half - seeded operation
sequences on the real object, a small reference model stepped alongside, checks
after every step, recorded histories, minimisation and exact replay.
"""

from __future__ import annotations

import copy
import random

from ..runner import digest_of

ID = "C18"
LEVEL = "exploration"
RULE = (
    "run = 400 histories; history = generated scaffold (fragments of several contigs on strands +,-,?; gaps first/last/consecutive; 1-bp rows) "
    "+ bait interval (any strand, tags) -> real IndexedAssembly.find_overlaps -> up to 12 operations drawn from "
    "{discard_start, discard_end, trim_large_overhangs(e), trim_fragment(first|last, keep_start, keep_end)} applied to the real "
    "OverlapResult while a reference model (first/last source row index + bases cut from either end) is stepped alongside; after "
    "EVERY step the span, rows, terminal rows and all derived figures are compared with the model's interval arithmetic. A second "
    "workload monitors every OverlapResult operation performed by the real remapping pipeline (BuildAssembly) on generated maps. "
    "An evaluation is one checked operation step. A history is distinct+non-trivial by (operation-name sequence, "
    "kinds of terminal rows, signs of both overhangs at each step) and only if at least one operation changed the object."
)
ASSUMPTIONS = [
    "no faults or schedules exist for this property; claimed for its history/refinement half only",
    "lookups that return nothing or raise produce no overlap result and are discarded (what the lookup must return is C12)",
    "an operation that raises ends the history; only states reached by accepted operations are checked",
    "for fragments of unknown strand (?) either end may be the one that is shortened; name, strand and containment are still checked",
]

_TAGSETS = [(), ("Painted",), ("Painted", "Hap1"), ("Haplotig",), ("Painted", "X", "Hap2"), ("Contaminant",)]


def plan(tier):
    if tier == "thorough":
        return {"runs": 80000, "chunk": 50, "wall_budget": 3300, "resample": 20}
    return {"runs": 1600, "chunk": 10, "wall_budget": 600, "resample": 8}


# ---------------------------------------------------------------------------
# generation (plain data, replayable)
# ---------------------------------------------------------------------------


def gen_history(rng):
    nrows = rng.choice([1, 1, 2, 3, 4, 5, 6, 8, 10])
    big = rng.random() < 0.004
    if big:
        # scale outlier: a scaffold (and a lookup result) of more than a thousand rows
        nrows = rng.randint(1050, 1300)
    rows = []
    contig_pos = {}
    for _ in range(nrows):
        r = rng.random()
        if r < 0.32:
            rows.append(["G", rng.choice([1, 1, 2, 5, 10, 30, 100]), rng.choice(["scaffold", "contig"])])
        else:
            name = "c%d" % rng.randint(1, 3 if not big else 400)
            L = rng.choice([1, 1, 2, 3, 5, 8, 13, 21, 40, 100])
            s = contig_pos.get(name, 0) + rng.choice([1, 1, 2, 10])
            contig_pos[name] = s + L - 1
            rows.append(["F", name, s, s + L - 1, rng.choice([1, 1, 1, -1, -1, 0])])
    if len(rows) > 1 and rng.random() < 0.12:
        # the same contig region twice (value-equal rows): first and last, or anywhere
        frs = [r for r in rows if r[0] == "F"]
        if frs:
            dup = list(rng.choice(frs))
            if rng.random() < 0.5:
                rows.append(dup)
            else:
                rows.insert(rng.randrange(len(rows) + 1), dup)
    if not any(r[0] == "F" for r in rows):
        rows.insert(rng.randrange(len(rows) + 1), ["F", "c1", 1, rng.choice([1, 4, 30]), rng.choice([1, -1])])
    total = sum((r[1] if r[0] == "G" else r[3] - r[2] + 1) for r in rows)
    a = rng.randint(1, total)
    b = rng.choice([a, rng.randint(a, total), rng.randint(a, total + 20), total])
    if rng.random() < 0.15 or (big and rng.random() < 0.8):
        a, b = 1, total
    bait = [a, b, rng.choice([1, 1, -1, 0]), list(rng.choice(_TAGSETS))]
    ops = []
    for _ in range(rng.choice([1, 2, 3, 4, 6, 8, 12])):
        r = rng.random()
        if r < 0.2:
            ops.append(["discard_start"])
        elif r < 0.4:
            ops.append(["discard_end"])
        elif r < 0.65:
            ops.append(["trim_large_overhangs", rng.choice([1, 2, 3, 5, 8, 20, 60, b - a + 1, b - a + 2])])
        else:
            ops.append(["trim_fragment", rng.choice(["first", "last"]), rng.random() < 0.3, rng.random() < 0.3])
    hist = {"rows": rows, "bait": bait, "ops": ops, "via_add_row": rng.random() < 0.4, "decoy": rng.random() < 0.35}
    if rng.random() < 0.12 and len(rows) > 1:
        # the scaffold holds only its first k rows when the assembly indexes it and
        # gains the others afterwards; whatever a lookup then returns must be consistent
        hist["late_rows"] = rng.randint(1, len(rows) - 1)
    if rng.random() < 0.1:
        hist["dup_add"] = True
    return hist


# ---------------------------------------------------------------------------
# model + checker
# ---------------------------------------------------------------------------


class Bad(Exception):
    def __init__(self, oracle, detail):
        super().__init__(detail)
        self.oracle = oracle
        self.detail = detail


def _is_gap(row):
    return hasattr(row, "gap_type")


class Checker:
    """Reference model: indices (i, j) of the first and last source row still
    present plus the number of bases cut from the left of row i (cl) and from
    the right of row j (cr); everything else is interval arithmetic over the
    source scaffold's cumulative coordinates."""

    def __init__(self, src_rows, bait):
        self.src = list(src_rows)
        self.bait = bait
        self.starts = []
        p = 1
        for r in self.src:
            self.starts.append(p)
            p += r.length
        self.ends = [s + r.length - 1 for s, r in zip(self.starts, self.src)]
        self.ambiguous = False

    # -- locate the object's rows in the source ------------------------------
    def observe(self, ov):
        """(i, j, cl, cr) described by the object's rows; raises Bad when the
        rows are not a contiguous run of the source with only the terminal
        fragments shortened."""
        rows = ov.rows
        if not rows:
            return None
        if _is_gap(rows[0]) or _is_gap(rows[-1]):
            raise Bad("terminal_gap", f"terminal gap left behind: first={rows[0]} last={rows[-1]}")
        cands = [k for k in range(len(self.src)) if self._matches(self.src[k], rows[0])]
        found = []
        for i in cands:
            j = i + len(rows) - 1
            if j >= len(self.src):
                continue
            if not self._matches(self.src[j], rows[-1]):
                continue
            if all(rows[k] is self.src[i + k] or self._same(rows[k], self.src[i + k]) for k in range(1, len(rows) - 1)):
                cuts = self._cuts(i, j, rows)
                if cuts is not None:
                    found.append((i, j) + cuts)
        if found:
            # a scaffold may hold value-equal rows more than once: every position
            # at which the rows fit is a candidate, the reported span picks one
            return found
        raise Bad(
            "rows_not_contiguous_run",
            "rows are not a contiguous run of the source scaffold with only terminal fragments shortened:\n rows="
            + ", ".join(map(str, rows)) + "\n source=" + ", ".join(map(str, self.src)),
        )

    @staticmethod
    def _same(a, b):
        if _is_gap(a) or _is_gap(b):
            return _is_gap(a) and _is_gap(b) and a.length == b.length and a.gap_type == b.gap_type
        return (a.name, a.start, a.end, a.strand) == (b.name, b.start, b.end, b.strand)

    @staticmethod
    def _matches(src, row):
        """row is src or a sub-interval of src with the same name and strand"""
        if _is_gap(src) or _is_gap(row):
            return False
        return (
            src.name == row.name and src.strand == row.strand
            and src.start <= row.start <= row.end <= src.end
        )

    def _cuts(self, i, j, rows):
        first, last = rows[0], rows[-1]
        si, sj = self.src[i], self.src[j]
        if i == j:
            lo, hi = first.start - si.start, si.end - first.end
            if si.strand == 1:
                return (lo, hi)
            if si.strand == -1:
                return (hi, lo)
            return ("either", lo, hi)  # unknown strand
        # first row: only its left (scaffold) side may be cut
        if si.strand == 1:
            if first.end != si.end:
                return None
            cl = first.start - si.start
        elif si.strand == -1:
            if first.start != si.start:
                return None
            cl = si.end - first.end
        else:
            if first.end != si.end and first.start != si.start:
                return None
            cl = si.length - first.length
        if sj.strand == 1:
            if last.start != sj.start:
                return None
            cr = sj.end - last.end
        elif sj.strand == -1:
            if last.end != sj.end:
                return None
            cr = last.start - sj.start
        else:
            if last.end != sj.end and last.start != sj.start:
                return None
            cr = sj.length - last.length
        return (cl, cr)

    # -- invariants ------------------------------------------------------------
    def check(self, ov, why):
        b = self.bait
        rows = ov.rows
        total = sum(r.length for r in rows)
        if ov.end - ov.start + 1 != total:
            raise Bad(
                "span_length",
                f"{why}: end-start+1 = {ov.end - ov.start + 1} but the rows cover {total} bases (start={ov.start} end={ov.end})",
            )
        if ov.length != total:
            raise Bad("span_length", f"{why}: length {ov.length} != total row length {total}")
        cands = self.observe(ov)
        if cands is None:
            return None
        resolved = []
        for st in cands:
            if st[2] == "either":
                i, j, lo, hi = st[0], st[1], st[3], st[4]
                for o in ((lo, hi), (hi, lo)):
                    resolved.append((i, j, o[0], o[1]))
            else:
                resolved.append(st)
        fit = [st for st in resolved
               if ov.start == self.starts[st[0]] + st[2] and ov.end == self.ends[st[1]] - st[3]]
        if not fit:
            i, j, cl, cr = resolved[0]
            raise Bad(
                "span_position",
                f"{why}: reported span {ov.start}..{ov.end} but the remaining rows (source rows {i}..{j}, cut {cl}/{cr}) "
                f"cover {self.starts[i] + cl}..{self.ends[j] - cr}"
                + (f" (or one of {len(resolved) - 1} other positions at which the same rows occur)" if len(resolved) > 1 else ""),
            )
        i, j, cl, cr = fit[0]
        self.ambiguous = len(fit) > 1 or any(st[2] == "either" for st in cands)
        exp_start = self.starts[i] + cl
        exp_end = self.ends[j] - cr
        # derived figures: plain interval arithmetic between span, terminal rows and bait
        exp = {
            "start_overhang": b.start - exp_start,
            "end_overhang": exp_end - b.end,
            "length_error": (exp_end - exp_start + 1) - b.length,
        }
        f_end = exp_start + rows[0].length - 1
        l_start = exp_end - rows[-1].length + 1
        exp["start_row_bait_overlap"] = max(0, min(b.end, f_end) - max(b.start, exp_start) + 1)
        exp["end_row_bait_overlap"] = max(0, min(b.end, exp_end) - max(b.start, l_start) + 1)
        # span after removing the first row and the gaps that follow it
        k = i + 1
        nxt = exp_start + rows[0].length
        while k <= j and _is_gap(self.src[k]):
            nxt += self.src[k].length
            k += 1
        exp["overhang_if_start_removed"] = b.start - nxt
        k = j - 1
        prv = exp_end - rows[-1].length
        while k >= i and _is_gap(self.src[k]):
            prv -= self.src[k].length
            k -= 1
        exp["overhang_if_end_removed"] = prv - b.end
        for name, want in exp.items():
            got = getattr(ov, name)
            if callable(got):
                got = got()
            if got != want:
                raise Bad("derived_figure", f"{why}: {name} = {got}, interval arithmetic gives {want} "
                          f"(span {exp_start}..{exp_end}, bait {b.start}..{b.end}, first row {rows[0]}, last row {rows[-1]})")
        return (i, j, cl, cr)

    # -- transition relation -----------------------------------------------------
    def next_frag(self, i, j):
        k = i + 1
        while k <= j and _is_gap(self.src[k]):
            k += 1
        return k

    def prev_frag(self, i, j):
        k = j - 1
        while k >= i and _is_gap(self.src[k]):
            k -= 1
        return k

    def legal(self, op, before, after, pre):
        """Is `after` a legal successor of `before` under `op`?  (pre = figures
        measured on the object before the operation.)"""
        i, j, cl, cr = before
        if op[0] == "discard_start":
            ni = self.next_frag(i, j)
            want = None if ni > j else (ni, j, 0, cr if ni != j or True else cr)
            return after == want or (after is None and want is None)
        if op[0] == "discard_end":
            nj = self.prev_frag(i, j)
            want = None if nj < i else (i, nj, cl, 0)
            return after == want
        if op[0] == "trim_large_overhangs":
            # which rows go is the operation's business; only a terminal row
            # with what follows it may go, from either end
            opts = {before}
            ni = self.next_frag(i, j)
            s1 = None if ni > j else (ni, j, 0, cr)
            opts.add(s1)
            for base in (before, s1):
                if base is None:
                    continue
                bi, bj, bcl, _ = base
                nj = self.prev_frag(bi, bj)
                opts.add(None if nj < bi else (bi, nj, bcl, 0))
            return after in opts
        if op[0] == "trim_fragment":
            if after is None:
                return False
            which, keep_start, keep_end = op[1], op[2], op[3]
            ncl, ncr = cl, cr
            at_start = which == "first" or i == j
            at_end = which == "last" or i == j
            if at_start and pre["start_overhang"] > 0 and not keep_start:
                ncl = cl + pre["start_overhang"]
            if at_end and pre["end_overhang"] > 0 and not keep_end:
                ncr = cr + pre["end_overhang"]
            return after == (i, j, ncl, ncr)
        return False


def build(hist):
    from tola.assembly.fragment import Fragment
    from tola.assembly.gap import Gap
    from tola.assembly.indexed_assembly import IndexedAssembly
    from tola.assembly.scaffold import Scaffold

    rows = []
    for r in hist["rows"]:
        if r[0] == "G":
            rows.append(Gap(r[1], r[2]))
        else:
            rows.append(Fragment(r[1], r[2], r[3], r[4]))
    late = hist.get("late_rows")
    if late:
        sc = Scaffold("scf", rows[:late])
    elif hist.get("via_add_row"):
        sc = Scaffold("scf")
        for r in rows:
            sc.add_row(r)
    else:
        sc = Scaffold("scf", rows)
    ia = IndexedAssembly("asm", scaffolds=[sc])
    if late:
        for r in rows[late:]:
            sc.add_row(r)
    if hist.get("decoy"):
        # an unrelated scaffold built afterwards from the same kinds of rows (as a
        # parser would, row by row): it must not disturb the indexed one
        decoy = Scaffold("decoy")
        for r in hist["rows"] + hist["rows"][::-1]:
            decoy.add_row(Gap(r[1], r[2]) if r[0] == "G" else Fragment(r[1], r[2], r[3], r[4]))
        decoy.reverse()
        ia.add_scaffold(decoy)
    if hist.get("dup_add"):
        # another scaffold of the same name is offered and refused: the refusal
        # must leave the indexed one as it was
        other = Scaffold("scf")
        for r in hist["rows"][::-1][: max(1, len(hist["rows"]) // 2)]:
            other.add_row(Gap(r[1], r[2]) if r[0] == "G" else Fragment(r[1], r[2], r[3], r[4]))
        try:
            ia.add_scaffold(other)
        except ValueError:
            pass
    a, b, strand, tags = hist["bait"]
    bait = Fragment("scf", a, b, strand, tuple(tags))
    return sc, ia, bait


def run_history(hist):
    """Returns (violation or None, info dict)."""
    info = {"steps": 0, "shape": [], "changed": False, "discarded": 0, "raised": 0}
    sc, ia, bait = build(hist)
    try:
        ov = ia.find_overlaps(bait)
    except Exception:  # noqa: BLE001 - lookup failures are C12's business
        info["discarded"] = 1
        return None, info
    if ov is None:
        info["discarded"] = 1
        return None, info
    ck = Checker(sc.rows, bait)
    original_rows = list(sc.rows)
    done = []
    try:
        state = ck.check(ov, "after lookup")
        info["steps"] += 1
        for op in hist["ops"]:
            if not ov.rows:
                break
            pre = {"start_overhang": ov.start_overhang, "end_overhang": ov.end_overhang}
            was_ambiguous = ck.ambiguous
            nrows_before = (len(ov.rows), ov.start, ov.end)
            try:
                if op[0] == "discard_start":
                    ov.discard_start()
                elif op[0] == "discard_end":
                    ov.discard_end()
                elif op[0] == "trim_large_overhangs":
                    ov.trim_large_overhangs(op[1])
                else:
                    frag = ov.rows[0] if op[1] == "first" else ov.rows[-1]
                    ov.trim_fragment(frag, op[2], op[3])
            except Exception:  # noqa: BLE001 - the operation did not accept; the history ends here
                info["raised"] += 1
                break
            done.append(op)
            why = "after " + " ; ".join(str(o) for o in done)
            new = ck.check(ov, why)
            info["steps"] += 1
            if (len(ov.rows), ov.start, ov.end) != nrows_before:
                info["changed"] = True
            if isinstance(state, tuple) and not was_ambiguous and not ck.ambiguous:
                if not ck.legal(op, state, new, pre):
                    raise Bad("illegal_transition", f"{why}: model state {state} -> {new} is not what {op} may do "
                              f"(overhangs before: {pre})")
            state = new
            if ov.rows:
                so, eo = ov.start_overhang, ov.end_overhang
                info["shape"].append((op[0], type(ov.rows[0]).__name__[0], (so > 0) - (so < 0), (eo > 0) - (eo < 0)))
            else:
                info["shape"].append((op[0], "-", 0, 0))
        # editing an overlap result is editing a copy: the source scaffold (and with
        # it the assembly's index) must be what it was, and a fresh lookup with the
        # same bait must again be consistent
        if len(sc.rows) != len(original_rows) or any(a is not b for a, b in zip(sc.rows, original_rows)):
            raise Bad("source_scaffold_mutated",
                      "after " + " ; ".join(str(o) for o in done) + ": the source scaffold's rows changed "
                      f"({len(original_rows)} rows before, now {', '.join(map(str, sc.rows))})")
        try:
            again = ia.find_overlaps(bait)
        except Exception:  # noqa: BLE001
            again = None
        if again is not None:
            Checker(original_rows, bait).check(again, "second lookup with the same bait after " + " ; ".join(str(o) for o in done))
            info["steps"] += 1
    except Bad as bad:
        return {"oracle": bad.oracle, "detail": bad.detail, "ops_done": done}, info
    return None, info


# ---------------------------------------------------------------------------
# second workload: monitor the real remapping pipeline
# ---------------------------------------------------------------------------


def pipeline_monitor(rng):
    """Runs BuildAssembly.remap_to_input_assembly on a generated (assembly,
    Pretext map) pair with every OverlapResult operation followed by the
    invariant check.  Returns (violation or None, steps checked, description)."""
    from tola.assembly import overlap_result as orm
    from tola.assembly.build_assembly import BuildAssembly
    from tola.assembly.gap import Gap
    from tola.assembly.indexed_assembly import IndexedAssembly

    from ..genmap import gen_assembly_and_map

    asm, prtxt, desc = gen_assembly_and_map(rng)
    ia = IndexedAssembly.new_from_assembly(asm)
    checkers = {}
    steps = [0]
    bad = []
    cls = orm.OverlapResult
    saved = {n: getattr(cls, n) for n in ("discard_start", "discard_end", "trim_fragment", "trim_large_overhangs")}
    orig_find = IndexedAssembly.find_overlaps

    def checker_for(ov):
        ck = checkers.get(id(ov))
        if ck is None:
            return None
        return ck[0]

    def find(self, bait):
        ov = orig_find(self, bait)
        if ov is not None and not bad:
            sc = self.scaffold_by_name(bait.name)
            ck = Checker(sc.rows, bait)
            checkers[id(ov)] = (ck, ov)
            try:
                ck.check(ov, "after lookup (pipeline)")
                steps[0] += 1
            except Bad as b:
                bad.append(b)
        return ov

    def wrap(name):
        orig = saved[name]

        def method(self, *a, **kw):
            r = orig(self, *a, **kw)
            ck = checker_for(self)
            if ck is not None and not bad:
                try:
                    ck.check(self, f"after {name}{a[1:] if name == 'trim_fragment' else a} (pipeline)")
                    steps[0] += 1
                except Bad as b:
                    bad.append(b)
            return r

        return method

    IndexedAssembly.find_overlaps = find
    for n in saved:
        setattr(cls, n, wrap(n))
    try:
        ba = BuildAssembly("x", default_gap=Gap(200, "scaffold"))
        try:
            ba.remap_to_input_assembly(prtxt, ia)
            # building the output assemblies reads the overlap results; it must
            # leave them as they were
            ba.assemblies_with_scaffolds_fused()
            for ck, ov in list(checkers.values()):
                if bad:
                    break
                if ov.rows:
                    try:
                        ck.check(ov, "after the output assemblies were fused (pipeline)")
                        steps[0] += 1
                    except Bad as b:
                        bad.append(b)
        except Exception:  # noqa: BLE001 - maps the tool rejects are not this property's business
            pass
    finally:
        IndexedAssembly.find_overlaps = orig_find
        for n, f in saved.items():
            setattr(cls, n, f)
    if bad:
        return {"oracle": bad[0].oracle, "detail": bad[0].detail + "\n workload: " + desc, "ops_done": []}, steps[0], desc
    return None, steps[0], desc


# ---------------------------------------------------------------------------
# runner entry points
# ---------------------------------------------------------------------------

HIST_PER_RUN = 400
DISCARD_UNITS_PER_RUN = HIST_PER_RUN  # discards are counted per history, not per run
PIPE_PER_RUN = 20


def run_one(run_seed, i, tier):
    import logging

    logging.getLogger().setLevel(logging.CRITICAL)
    rng = random.Random(run_seed)
    res = {"evals": 0, "events": 0, "classes": [], "violations": [], "discarded": 0, "probes": {}, "faults": {}}
    classes = set()
    dig = []
    for h in range(HIST_PER_RUN):
        hist = gen_history(rng)
        v, info = run_history(hist)
        res["evals"] += info["steps"]
        res["discarded"] += info["discarded"]
        res["probes"]["operation_raised"] = res["probes"].get("operation_raised", 0) + info["raised"]
        dig.append((info["steps"], info["shape"]))
        if info["changed"]:
            classes.add(digest_of(info["shape"])[:12])
        if v is not None and not res["violations"]:
            res["violations"].append({
                "oracle": v["oracle"], "site": "history", "detail": v["detail"],
                "replay": {"property": ID, "kind": "history", "history": hist, "expect": {"oracle": v["oracle"]}},
            })
        if i == 0 and h < 2:
            res.setdefault("sample", {"histories": []})["histories"].append(hist)
    for p in range(PIPE_PER_RUN):
        pseed = rng.getrandbits(48)
        v, steps, desc = pipeline_monitor(random.Random(pseed))
        res["evals"] += steps
        res["probes"]["pipeline_steps_checked"] = res["probes"].get("pipeline_steps_checked", 0) + steps
        dig.append(("pipe", steps))
        if steps:
            classes.add("pipe:" + digest_of(desc)[:10])
        if v is not None and not res["violations"]:
            res["violations"].append({
                "oracle": v["oracle"], "site": "pipeline", "detail": v["detail"],
                "replay": {"property": ID, "kind": "pipeline", "seed": pseed, "expect": {"oracle": v["oracle"]}},
            })
    res["classes"] = sorted(classes)
    res["digest"] = digest_of(dig)
    res["faults"] = {}
    return res


def replay(obj):
    if obj.get("kind") == "pipeline":
        v, steps, desc = pipeline_monitor(random.Random(obj["seed"]))
        info = {"steps": steps}
    else:
        v, info = run_history(obj["history"])
    vs = []
    if v is not None:
        vs.append({"oracle": v["oracle"], "site": obj.get("kind", "history"), "detail": v["detail"]})
    return {"digest": digest_of([info.get("steps"), [x["oracle"] for x in vs]]), "violations": vs}


def shrink_candidates(obj):
    if obj.get("kind") == "pipeline":
        return
    h = obj["history"]
    for k in range(len(h["ops"]) - 1, -1, -1):
        c = copy.deepcopy(obj)
        del c["history"]["ops"][k]
        yield c
    for k in range(len(h["rows"])):
        if len(h["rows"]) > 1:
            c = copy.deepcopy(obj)
            del c["history"]["rows"][k]
            yield c
    for k, r in enumerate(h["rows"]):
        c = copy.deepcopy(obj)
        if r[0] == "G" and r[1] > 1:
            c["history"]["rows"][k][1] = max(1, r[1] // 2)
            yield c
        elif r[0] == "F" and r[3] > r[2]:
            c["history"]["rows"][k][3] = r[2] + (r[3] - r[2]) // 2
            yield c
    a, b, s, tags = h["bait"]
    if tags:
        c = copy.deepcopy(obj)
        c["history"]["bait"][3] = []
        yield c
    if b > a:
        c = copy.deepcopy(obj)
        c["history"]["bait"][1] = a + (b - a) // 2
        yield c
    if a > 1:
        c = copy.deepcopy(obj)
        c["history"]["bait"][0] = a // 2 or 1
        yield c


def evidence_extra(agg):
    return {"faults_note": "none applicable: OverlapResult touches no I/O, clock or thread (DESIGN.md 4.5)"}
