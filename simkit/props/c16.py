"""C16 - --no-clobber never alters an existing file.  (DESIGN.md section 4.3)

The collision sites (the run's output files) are discovered from the trace of
a clean run under the interposed file layer; subsets of them are pre-created
(as files of several sizes, dangling symlinks, symlinks to files elsewhere) and
every mutating file operation of the --no-clobber run is monitored.
"""

from __future__ import annotations

import copy
import glob
import itertools
import os
import random
import re
import shutil
from pathlib import Path

from .. import clirun, genmap, sandbox
from ..repo import REPO
from ..runner import digest_of
from ..world import Fault, World, is_mutating_op

ID = "C16"
LEVEL = "fault_enumeration"
RULE = (
    "run = one workload (generated FASTA/TPF input + PretextView-model map, or a small real specimen of tests/data) x output format "
    "{FASTA, AGP, TPF} x --write-log on/off: (1) clean run in an empty directory under the interposed file layer gives the set W of "
    "output files and their bytes C; (2) subsets S of W are ENUMERATED - every singleton, W itself and seeded random subsets (all "
    "2^|W|-1 subsets in the thorough tier when |W| <= 7) - each member pre-created as an injected collision (EEXIST) of a seeded kind "
    "{empty file, short file, file longer than C, dangling symlink, symlink to a file elsewhere}; (3) --no-clobber run: exit status "
    "!= 0, error names a member of S, no successful mutating operation on any member of S in the trace, members byte-, mtime- and "
    "link-identical afterwards; (4) default / explicit --clobber run on the same S: exit 0 and every file of W holds exactly C. An "
    "evaluation is one CLI execution. A case is distinct+non-trivial by (kind of the first colliding site, |S| class, sentinel kind, "
    "output format, log on/off, clobber mode); the clean discovery runs are not counted."
)
ASSUMPTIONS = [
    "files that appear during the run are outside the property as stated ('already exists') and are not injected",
    "generated Pretext maps that the tool rejects on a clean directory are discarded and counted, never reported",
    "the .fai/.agp cache beside a FASTA input is not an output file of the run",
]

_SENTINEL_KINDS = ["empty", "short", "long", "long", "same", "same_size", "other_newlines", "dangling_symlink", "symlink_elsewhere"]


def plan(tier):
    if tier == "thorough":
        return {"runs": 1200, "chunk": 4, "wall_budget": 3300, "resample": 10}
    return {"runs": 160, "chunk": 4, "wall_budget": 900, "resample": 6}


def specimens():
    out = []
    for d in sorted(glob.glob(os.path.join(REPO, "tests", "data", "*"))):
        if not os.path.isdir(d):
            continue
        name = os.path.basename(d)
        version = ""
        m = re.search(r"_(\d+)$", name)
        sp = name
        if m:
            version = "." + m.group(1)
            sp = name[: -len(m.group(0))]
        tpf = os.path.join(d, f"{sp}-input{version}.tpf")
        agp = os.path.join(d, f"{sp}-pretext{version}.agp")
        if os.path.exists(tpf) and os.path.exists(agp):
            out.append((name, tpf, agp, os.path.getsize(tpf) + os.path.getsize(agp)))
    return out


def gen_case(rng, tier):
    r = rng.random()
    case = {"write_log": rng.random() < 0.6, "clobber_flag": rng.choice(["default", "--clobber", "-f"])}
    small = [s for s in specimens() if s[3] < 120_000]
    if r < 0.2 and small:
        s = rng.choice(small)
        case.update({"kind": "specimen", "specimen": s[0], "fmt": rng.choice(["tpf", "agp"])})
    else:
        fasta = r < 0.75
        while True:
            w = genmap.gen_workload(rng, fasta_backed=fasta)
            if w is not None:
                break
        case.update({
            "kind": "fasta" if fasta else "tpf",
            "fmt": rng.choice(["fa", "fa", "fasta", "tpf", "agp"]) if fasta else rng.choice(["tpf", "agp"]),
            "input": w["fasta"] if fasta else w["tpf"],
            "pretext": w["pretext_agp"],
        })
    case["version"] = rng.choice(["", "", ".2"])
    case["io_buf"] = rng.choice([16, 64, 8192, 8192])
    case["subset_seed"] = rng.getrandbits(32)
    # (a quiet run logs nothing before the files are opened.  Not CRITICAL: the tool
    # reports an output collision with logging.error, so a user who asks for CRITICAL
    # only has asked not to be told - --log-level is not among the configurations
    # the property quantifies over, see DESIGN.md 10.3)
    case["log_level"] = rng.choice([None, None, None, "DEBUG", "WARNING", "ERROR", "ERROR"])
    # --output given as a bare file name, the tool started inside the output directory
    case["rel_output"] = rng.random() < 0.3
    return case


class Runner:
    def __init__(self, case, root, tier):
        from tola.assembly.scripts import pretext_to_asm

        self.cli = pretext_to_asm.cli
        self.case = case
        self.root = root
        self.tier = tier
        self.ind = os.path.join(root, "in")
        self.outd = os.path.join(root, "out")
        self.aux = os.path.join(root, "aux")
        self.world = World(root, io_buf=case.get("io_buf", 8192), read_buf=8192)
        self.evals = 0
        self.violations = []
        self.classes = set()
        self.vkeys = set()

    def setup_inputs(self):
        c = self.case
        os.makedirs(self.ind)
        os.makedirs(self.outd)
        os.makedirs(self.aux)
        if c["kind"] == "specimen":
            s = [x for x in specimens() if x[0] == c["specimen"]][0]
            self.asm = os.path.join(self.ind, os.path.basename(s[1]))
            self.prt = os.path.join(self.ind, os.path.basename(s[2]))
            shutil.copy(s[1], self.asm)
            shutil.copy(s[2], self.prt)
        else:
            self.asm = os.path.join(self.ind, "g.fa" if c["kind"] == "fasta" else "g.tpf")
            self.prt = os.path.join(self.ind, "map.agp")
            Path(self.asm).write_text(c["input"])
            Path(self.prt).write_text(c["pretext"])
        for p in (self.asm, self.prt):
            self.world.stamp_path(p)
        self.world.advance(5)
        self.outfile = os.path.join(self.outd, f"x{c['version']}.{c['fmt']}")

    def args(self, mode, write_log=None):
        a = ["-a", self.asm, "-p", self.prt, "-o", os.path.basename(self.outfile) if self.case.get("rel_output") else self.outfile]
        a.append("--write-log" if (self.case["write_log"] if write_log is None else write_log) else "--no-write-log")
        if mode == "noclobber":
            a.append("--no-clobber")
        elif mode != "default":
            a.append(mode)
        if self.case.get("log_level"):
            a += ["--log-level", self.case["log_level"]]
        return a

    def run_cli(self, mode, fault=None, prelude=None, keep=None, write_log=None):
        """One invocation = one simulated process = one forked child: nothing
        the tool keeps in module globals or in the logging tree reaches the
        next invocation.  With `prelude`, the same process first performs an
        invocation in that mode (and the user then removes the output files
        not in `keep`); the trace returned is that of the second invocation."""
        w = self.world
        start = len(w.trace)

        def body():
            mark = None
            if self.case.get("rel_output"):
                os.chdir(self.outd)  # (a forked child: the harness stays where it is)
            if prelude is not None:
                clirun.invoke(self.cli, self.args(prelude))
                with w.suspend():
                    for fn in os.listdir(self.outd):
                        if keep is not None and fn not in keep:
                            os.unlink(os.path.join(self.outd, fn))
                w.advance(8)
                mark = len(w.trace)
            r = clirun.invoke(self.cli, self.args(mode, write_log))
            clirun.end_of_process()
            if r.exc is not None:
                r.exc = repr(r.exc)
            return r, mark

        proc = w.run_forked(body, name=mode, fault=fault)
        res, mark = proc.outcome[1] if proc.outcome[0] == "returned" else (None, None)
        self.evals += 1
        w.advance(1)
        return res, w.trace[(mark if mark is not None else start):]

    def wipe_out(self):
        with self.world.suspend():
            for d in (self.outd, self.aux):
                shutil.rmtree(d, ignore_errors=True)
                os.makedirs(d)

    def listing(self):
        out = {}
        with self.world.suspend():
            for fn in sorted(os.listdir(self.outd)):
                p = os.path.join(self.outd, fn)
                if os.path.isfile(p):
                    with open(p, "rb") as fh:
                        out[fn] = fh.read()
        return out

    def plant(self, S, kinds, C):
        """Pre-create the members of S; returns {name: identity} for the later comparison."""
        ident = {}
        w = self.world
        with w.suspend():
            for fn in S:
                p = os.path.join(self.outd, fn)
                kind = kinds[fn]
                old = w.clock - 100
                if random.Random(f"{self.case['subset_seed']}:{fn}:mtime").random() < 0.25:
                    old = w.clock + 4000  # dated in the future (clock skew, restored timestamps)
                if kind in ("empty", "short", "long", "same", "same_size", "other_newlines"):
                    # "same": left by an earlier identical run - still a collision;
                    # "same_size": other content of exactly the new content's length
                    other = bytes((c if c in b"\n\t, " else (c ^ 1 if 33 <= (c ^ 1) < 127 else c)) for c in C[fn])
                    if other == C[fn] and other:
                        other = b"#" + other[1:]
                    # "other_newlines": the new content with the other line-ending convention
                    # (equal when compared in text mode, different bytes)
                    nl = C[fn].replace(b"\r\n", b"\n") if b"\r\n" in C[fn] else C[fn].replace(b"\n", b"\r\n")
                    data = {"empty": b"", "short": b"old\n", "long": C[fn] + b"#stale tail\n" * 40 + b"x" * 2048,
                            "same": C[fn], "same_size": other, "other_newlines": nl}[kind]
                    with open(p, "wb") as fh:
                        fh.write(data)
                    w.stamp_path(p, old)
                elif kind == "dangling_symlink":
                    os.symlink(os.path.join(self.aux, "missing-" + fn), p)
                else:
                    tgt = os.path.join(self.aux, "target-" + fn)
                    with open(tgt, "wb") as fh:
                        fh.write(b"precious data elsewhere\n" * 50 + C[fn])
                    w.stamp_path(tgt, old)
                    os.symlink(tgt, p)
                ident[fn] = self.identity(p)
        return ident

    def identity(self, p):
        st = os.lstat(p)
        if os.path.islink(p):
            tgt = os.readlink(p)
            if os.path.exists(p):
                with open(p, "rb") as fh:
                    data = fh.read()
                ts = os.stat(p)
                return ("link", tgt, data, ts.st_mtime_ns, ts.st_ino)
            return ("link", tgt, None, None, None)
        with open(p, "rb") as fh:
            data = fh.read()
        return ("file", data, st.st_mtime_ns, st.st_ino)

    def violate(self, oracle, site, detail, S, kinds, mode):
        key = (oracle, site)
        if key in self.vkeys:
            return
        self.vkeys.add(key)
        self.violations.append({
            "oracle": oracle, "site": site, "detail": detail[:1500],
            "replay": {
                "property": ID, "case": self.case, "subset": sorted(S), "kinds": kinds, "mode": mode,
                "expect": {"oracle": oracle},
            },
        })

    def site_kind(self, fn):
        for pat, k in ((".log", "log"), (".info.yaml", "yaml"), (".chr_report.csv", "chr_report_csv"),
                       (".chromosome.list.csv", "chr_list_csv")):
            if fn.endswith(pat):
                return k
        if fn.endswith(".agp") and self.case["fmt"] in ("fa", "fasta"):
            return "agp_companion"
        return "assembly"

    # -- the two oracles -----------------------------------------------------
    def check_noclobber(self, S, kinds, C):
        self.wipe_out()
        ident = self.plant(S, kinds, C)
        res, trace = self.run_cli("noclobber")
        relS = {os.path.join("out", fn) for fn in S}
        if res.code == 0:
            self.violate("noclobber_exit_zero", "exit", f"--no-clobber with pre-existing {sorted(S)} ({kinds}) exited 0\nstderr: {res.stderr[-600:]}", S, kinds, "noclobber")
        for (pid, n, op, rel, nb, note) in trace:
            if rel in relS and is_mutating_op(op) and not note.startswith("failed") and op != "utime":
                fn = os.path.basename(rel)
                self.violate(
                    "noclobber_mutating_op", f"{self.site_kind(fn)}:{op.split(':')[0]}",
                    f"--no-clobber performed {op} on pre-existing {rel} (sentinel kind {kinds[fn]})", S, kinds, "noclobber")
                break
        with self.world.suspend():
            for fn in S:
                p = os.path.join(self.outd, fn)
                now = self.identity(p) if os.path.lexists(p) else ("gone",)
                if now != ident[fn]:
                    what = "deleted" if now == ("gone",) else "changed"
                    self.violate(
                        "noclobber_file_altered", f"{self.site_kind(fn)}:{what}",
                        f"--no-clobber: pre-existing {fn} (sentinel kind {kinds[fn]}) was {what}; exit={res.code}\n"
                        f"before={_brief(ident[fn])}\nafter={_brief(now)}", S, kinds, "noclobber")
                    break
            log = ""
            lp = self.outfile.rsplit(".", 1)[0] + ".log"
            lp = str(Path(self.outfile).with_suffix(".log"))
            if os.path.isfile(lp) and os.path.basename(lp) not in S:
                with open(lp, errors="replace") as fh:
                    log = fh.read()
        if res.code != 0:
            text = res.stderr + log
            if not any(fn in text for fn in S):
                self.violate("noclobber_error_names_no_file", "message",
                             f"--no-clobber failed with exit {res.code} but the error names none of {sorted(S)}:\n{text[-800:]}",
                             S, kinds, "noclobber")
        first = None
        for (pid, n, op, rel, nb, note) in trace:
            if rel in relS and note.startswith("failed"):
                first = os.path.basename(rel)
                break
        self.fault_variants(S, kinds, C, trace)
        k = len(S)
        self.classes.add(
            f"noclobber first={self.site_kind(first) if first else '-'} |S|={'1' if k == 1 else ('all' if k == len(C) else 'some')} "
            f"kind={kinds[first] if first else '-'} fmt={self.case['fmt']} log={int(self.case['write_log'])}")

    def check_after_run(self, S, C, flip_log=False):
        """The pre-existing files are those an earlier invocation IN THE SAME
        PROCESS has just written (S of them are still there): --no-clobber
        must refuse and leave them as they are.  With flip_log the second
        invocation has the other --write-log setting than the first."""
        self.wipe_out()
        kinds = {fn: "same" for fn in S}
        res, trace = self.run_cli("noclobber", prelude="default", keep=set(S),
                                  write_log=(not self.case["write_log"]) if flip_log else None)
        relS = {os.path.join("out", fn) for fn in S}
        mode = "noclobber_after_run_flip_log" if flip_log else "noclobber_after_run"
        if flip_log and not [fn for fn in S if not fn.endswith(".log")]:
            return  # (nothing the second invocation could collide with)
        if res is None:
            return
        if res.code == 0:
            self.violate("noclobber_exit_zero", "exit", f"--no-clobber after an invocation in the same process had written {sorted(S)} exited 0\nstderr: {res.stderr[-600:]}", S, kinds, mode)
        for (pid, n, op, rel, nb, note) in trace:
            if rel in relS and is_mutating_op(op) and not note.startswith("failed") and op != "utime":
                fn = os.path.basename(rel)
                self.violate(
                    "noclobber_mutating_op", f"{self.site_kind(fn)}:{op.split(':')[0]}",
                    f"--no-clobber performed {op} on {rel}, written by an earlier invocation in the same process", S, kinds, mode)
                break
        now = self.listing()
        for fn in S:
            if now.get(fn) != C[fn]:
                what = "deleted" if fn not in now else "changed"
                self.violate(
                    "noclobber_file_altered", f"{self.site_kind(fn)}:{what}",
                    f"--no-clobber: {fn}, written by an earlier invocation in the same process, was {what}; exit={res.code}", S, kinds, mode)
                break
        self.classes.add(f"noclobber after a run in the same process |S|={'all' if len(S) == len(C) else 'some'} fmt={self.case['fmt']} log={int(self.case['write_log'])}")

    def fault_variants(self, S, kinds, C, trace):
        """The same --no-clobber run with an I/O error or a kill injected at a
        seeded event: whatever else happens, the pre-existing files stay as
        they were."""
        nevents = len(trace)
        if nevents < 2 or self.violations:
            return
        rng = random.Random(f"{self.case['subset_seed']}:{','.join(sorted(S))}")
        # every singleton and the full set get fault variants; other subsets half of the time
        if 1 < len(S) < len(C) and rng.random() < 0.5 and self.tier == "quick":
            return
        # fault points are drawn from the events at which the kind can fire
        ops = [t[2] for t in trace]
        writes = [i for i, o in enumerate(ops) if o == "write"]
        wopens = [i for i, o in enumerate(ops) if o.startswith("open:") and is_mutating_op(o)]
        for _ in range(3 if self.tier == "quick" else 10):
            kind = rng.choice(["enospc", "eio_write", "crash", "torn_write", "short_write", "eio_open", "enospc", "eio_write"])
            pool = wopens if kind == "eio_open" else (list(range(nevents)) if kind == "crash" else writes)
            if not pool:
                continue
            at = rng.choice(pool)
            self.wipe_out()
            ident = self.plant(S, kinds, C)
            fo = Fault(kind, at, rng.random())
            res, trace = self.run_cli("noclobber", fault=fo)
            if not fo.fired:
                continue
            self.world.probe("noclobber_runs_with_fault_fired")
            relS = {os.path.join("out", fn) for fn in S}
            for (pid, n, op, rel, nb, note) in trace:
                if rel in relS and is_mutating_op(op) and not note.startswith("failed") and note != "CRASH" and op != "utime":
                    fn = os.path.basename(rel)
                    self.violate(
                        "noclobber_mutating_op", f"{self.site_kind(fn)}:{op.split(':')[0]}+{kind}",
                        f"--no-clobber with {kind} injected at event {at} ({fo.where}) performed {op} on pre-existing {rel}",
                        S, kinds, f"noclobber+{kind}@{at}@{fo.frac}")
                    return
            with self.world.suspend():
                for fn in S:
                    p = os.path.join(self.outd, fn)
                    now = self.identity(p) if os.path.lexists(p) else ("gone",)
                    if now != ident[fn]:
                        what = "deleted" if now == ("gone",) else "changed"
                        self.violate(
                            "noclobber_file_altered", f"{self.site_kind(fn)}:{what}+{kind}",
                            f"--no-clobber with {kind} injected at event {at} ({fo.where}): pre-existing {fn} was {what}\n"
                            f"before={_brief(ident[fn])}\nafter={_brief(now)}", S, kinds, f"noclobber+{kind}@{at}@{fo.frac}")
                        return
            self.classes.add(f"noclobber+fault kind={kind} where={fo.where[0].split(':')[0]}:{self.site_kind(os.path.basename(fo.where[1]))} fmt={self.case['fmt']}")

    def replay_fault(self, S, kinds, C, kind, at, frac):
        self.wipe_out()
        ident = self.plant(S, kinds, C)
        fo = Fault(kind, at, frac)
        res, trace = self.run_cli("noclobber", fault=fo)
        relS = {os.path.join("out", fn) for fn in S}
        for (pid, n, op, rel, nb, note) in trace:
            if rel in relS and is_mutating_op(op) and not note.startswith("failed") and note != "CRASH" and op != "utime":
                self.violate("noclobber_mutating_op", "replay", f"{op} on pre-existing {rel} with {kind}@{at}", S, kinds, "replay")
        with self.world.suspend():
            for fn in S:
                p = os.path.join(self.outd, fn)
                now = self.identity(p) if os.path.lexists(p) else ("gone",)
                if now != ident[fn]:
                    self.violate("noclobber_file_altered", "replay", f"pre-existing {fn} altered with {kind}@{at}", S, kinds, "replay")

    def check_clobber(self, S, kinds, C, mode):
        self.wipe_out()
        self.plant(S, kinds, C)
        res, _trace = self.run_cli(mode)
        if res.code != 0:
            self.violate("clobber_failed", "exit", f"{mode} run with pre-existing {sorted(S)} exited {res.code}\n{res.stderr[-800:]}", S, kinds, mode)
            return
        now = self.listing()
        for fn, data in C.items():
            if now.get(fn) != data:
                got = now.get(fn)
                self.violate(
                    "clobber_not_rewritten", f"{self.site_kind(fn)}:{kinds.get(fn, 'absent')}",
                    f"{mode} run: {fn} (pre-existing: {kinds.get(fn, 'no')}) does not hold exactly the clean run's bytes "
                    f"(clean {len(data)} bytes, now {'missing' if got is None else str(len(got)) + ' bytes'}; "
                    f"tail now: {(got or b'')[-60:]!r})", S, kinds, mode)
                break
        k = len(S)
        self.classes.add(f"clobber mode={mode} |S|={'1' if k == 1 else ('all' if k == len(C) else 'some')} fmt={self.case['fmt']} log={int(self.case['write_log'])}")

    # -- driver ----------------------------------------------------------------
    def subsets(self, W, rng):
        W = sorted(W)
        subs = [[w] for w in W] + [list(W)]
        if self.tier == "thorough" and len(W) <= 7:
            subs = [list(c) for k in range(1, len(W) + 1) for c in itertools.combinations(W, k)]
        else:
            if len(W) > 2:
                pairs = list(itertools.combinations(W, 2))
                rng.shuffle(pairs)
                subs += [list(p) for p in pairs[: (3 if self.tier == "quick" else 12)]]
                for _ in range(2 if self.tier == "quick" else 10):
                    k = rng.randint(2, len(W) - 1)
                    subs.append(sorted(rng.sample(W, k)))
        seen, out = set(), []
        for s in subs:
            t = tuple(s)
            if t not in seen:
                seen.add(t)
                out.append(s)
        return out

    def run(self, only=None):
        w = self.world
        self.setup_inputs()
        with w:
            res, trace = self.run_cli("default")
            self.evals -= 1
            if res.code != 0:
                return "discard"
            C = self.listing()
            written = {os.path.basename(rel) for (_p, _n, op, rel, _b, note) in trace
                       if rel.startswith("out" + os.sep) and is_mutating_op(op) and not note.startswith("failed")}
            # W = what the clean run left behind; temporary files that were
            # renamed or removed again are not output files of the run
            W = sorted(C)
            if set(W) - written:
                # written through an API the layer does not interpose: the trace
                # monitor is blind for it, the state comparison after the run is not
                w.probe("output_files_not_seen_by_trace_monitor", len(set(W) - written))
            self.W = W
            if only is not None:
                S, kinds, mode = only
                if not set(S) <= set(W):
                    return "discard"
                if mode == "noclobber":
                    self.check_noclobber(S, kinds, C)
                elif mode in ("noclobber_after_run", "noclobber_after_run_flip_log"):
                    self.check_after_run(S, C, flip_log=mode.endswith("flip_log"))
                elif mode.startswith("noclobber+"):
                    kind, at, frac = mode[len("noclobber+"):].split("@")
                    self.replay_fault(S, kinds, C, kind, int(at), float(frac))
                else:
                    self.check_clobber(S, kinds, C, mode)
                return "ok"
            rng = random.Random(self.case["subset_seed"])
            logname = os.path.basename(str(Path(self.outfile).with_suffix(".log")))
            if self.case["write_log"] and logname not in W:
                # --write-log makes <output>.log an output file of the run whether or not
                # this run got as far as writing to it: a log that is already there must
                # be refused all the same
                w.probe("log_requested_but_not_written_by_the_clean_run")
                self.check_noclobber([logname], {logname: "short"}, dict(C, **{logname: b""}))
            self.check_after_run(list(W), C)
            self.check_after_run(list(W), C, flip_log=True)
            if len(W) > 1:
                self.check_after_run(sorted(rng.sample(W, rng.randint(1, len(W) - 1))), C)
            for S in self.subsets(W, rng):
                kinds = {fn: rng.choice(_SENTINEL_KINDS) for fn in S}
                self.check_noclobber(S, kinds, C)
                self.check_clobber(S, kinds, C, self.case["clobber_flag"])
                if len(self.violations) >= 4:
                    break
        return "ok"


def _brief(ident):
    out = []
    for x in ident:
        if isinstance(x, bytes):
            out.append(f"<{len(x)} bytes ..{x[-30:]!r}>")
        else:
            out.append(x)
    return tuple(out)


def execute_case(case, run_seed, tier, only=None, tag=""):
    root = sandbox.make(ID, tier, run_seed, tag)
    try:
        r = Runner(case, root, tier)
        status = r.run(only)
        w = r.world
        return {
            "digest": digest_of([w.trace, [v["oracle"] for v in r.violations]]),
            "events": w.events,
            "sim_seconds": w.sim_seconds,
            "faults": {"eexist": sum(1 for t in w.trace if t[5].startswith("failed:FileExistsError"))},
            "probes": dict(w.probes),
            "classes": sorted(r.classes),
            "evals": r.evals,
            "violations": r.violations,
            "discarded": 1 if status == "discard" else 0,
            "extra": {"output_files_per_workload": [len(getattr(r, "W", []))]},
        }
    finally:
        clirun.end_of_process()
        sandbox.remove(root)


def run_one(run_seed, i, tier):
    rng = random.Random(run_seed)
    case = gen_case(rng, tier)
    res = execute_case(case, run_seed, tier)
    if i < 2:
        res["sample"] = {k: (v if not isinstance(v, str) or len(v) < 300 else v[:300] + "...") for k, v in case.items()}
    return res


def replay(obj):
    if obj.get("full_run"):
        # every subset of the run, in the order the run had them
        return execute_case(obj["case"], 0xC16, obj.get("tier", "quick"), tag="r")
    return execute_case(obj["case"], 0xC16, "quick", only=(obj["subset"], obj["kinds"], obj["mode"]), tag="r")


def full_replay(rep):
    return {"property": ID, "case": rep["case"], "full_run": True, "tier": rep.get("found", {}).get("tier", "quick"),
            "expect": rep.get("expect")}


def shrink_candidates(obj):
    S = obj["subset"]
    if len(S) > 1:
        for k in range(len(S)):
            c = copy.deepcopy(obj)
            fn = c["subset"].pop(k)
            c["kinds"].pop(fn, None)
            yield c
    for fn, kind in obj["kinds"].items():
        if kind != "short":
            c = copy.deepcopy(obj)
            c["kinds"][fn] = "short"
            yield c
    if obj["case"].get("write_log"):
        c = copy.deepcopy(obj)
        c["case"]["write_log"] = False
        yield c


def evidence_extra(agg):
    return {"subset_enumeration": "singletons + W + seeded pairs/subsets (quick); all subsets when |W|<=7 (thorough)"}
