"""C17 - outputs are a deterministic function of the input files.
(DESIGN.md section 4.4)

The same inputs are re-run while the simulator varies exactly one source of
environment nondeterminism at a time: the interpreter's hash seed (fresh
interpreters), the working directory, the stream buffer knob, cold vs warm
index cache (simulated clock), earlier invocations in the same process, and
the format in which the same input assembly is supplied.
"""

from __future__ import annotations

import inspect
import copy
import os
import random
import shutil
import subprocess
import sys
from pathlib import Path

from .. import clirun, genmap, sandbox
from ..repo import REPO_SRC
from ..runner import digest_of
from ..world import World, is_mutating_op
from .c16 import specimens

ID = "C17"
LEVEL = "exploration"
RULE = (
    "run = one workload (generated FASTA or TPF input + PretextView-model map incl. two-haplotype and multi-tag maps, or a real "
    "specimen) whose reference outputs come from one in-process pretext-to-asm run (cold cache, default buffer, absolute paths, "
    "PYTHONHASHSEED=0); then one controlled source of nondeterminism is varied at a time and exit status, output file set and every "
    "output byte are compared: hash seed (fresh interpreters, PYTHONHASHSEED 1, 2 and a seeded value), working directory with "
    "relative arguments, stream buffer knob 1..250000 with a cold cache, warm cache under the simulated clock (probe: the load path "
    "is really taken), in-process histories (other workloads and asm-format invocations before a repeat; every earlier run's files "
    "re-checked at the end of the history), input format FASTA vs AGP vs TPF (output assemblies row for row), and asm-format under "
    "hash seeds and histories. An evaluation is one CLI execution. A case is distinct+non-trivial by (dimension varied, workload "
    "class, output format, which tag kinds are present, cuts present) and only for runs that exit 0 and write >= 2 files."
)
ASSUMPTIONS = [
    "stderr/stdout chatter is not an output file; log files are compared after replacing the sandbox directories by placeholders",
    "generated maps the tool rejects (non-zero exit of the reference run) are discarded and counted",
    "the hash-seed dimension runs real OS processes (fresh interpreters) outside the interposed file layer; all other dimensions run in-process under it",
]


def plan(tier):
    if tier == "thorough":
        return {"runs": 6000, "chunk": 8, "wall_budget": 3300, "resample": 6, "hang_s": 900}
    return {"runs": 256, "chunk": 2, "wall_budget": 900, "resample": 4}


# ---------------------------------------------------------------------------
# workload
# ---------------------------------------------------------------------------


def gen_wl(rng, force=None):
    r = rng.random()
    small = [s for s in specimens() if s[3] < 300_000]
    if (force == "specimen" or (force is None and r < 0.12)) and small:
        s = rng.choice(small)
        return {"kind": "specimen", "specimen": s[0], "fmt": rng.choice(["tpf", "agp"])}
    fasta = force == "fasta" or (force is None and r < 0.8)
    rich = rng.random() < 0.15
    while True:
        w = genmap.gen_workload(rng, fasta_backed=fasta, haps=(rng.random() < 0.45) and not rich, rich_tags=rich)
        if w is not None:
            break
    wl = _wl_dict(rng, fasta, w)
    if rich:
        wl["log_level"] = "DEBUG"
    return wl


def _wl_dict(rng, fasta, w):
    return {
        "kind": "fasta" if fasta else "tpf",
        "fmt": rng.choice(["fa", "fa", "fa", "agp", "agp", "tpf"]) if fasta else rng.choice(["tpf", "agp", "agp"]),
        "input": w["fasta"] if fasta else w["tpf"],
        "pretext": w["pretext_agp"],
        "prefix": rng.choice(["SUPER_", "SUPER_", "chr"]),
        "log_level": rng.choice(["INFO", "INFO", "DEBUG", "DEBUG", "WARNING"]),
    }


def gen_case(rng, tier):
    case = _gen_case(rng, tier)
    if case["w1"].get("log_level") == "DEBUG" and "hash" not in case["dims"]:
        # the DEBUG log prints tables built from tag sets: always look at it under other hash seeds
        case["dims"] = sorted(case["dims"] + ["hash"])
    if "\tHap" in case["w1"].get("pretext", "") and "hash" not in case["dims"]:
        # haplotype tags are handled as sets too
        case["dims"] = sorted(case["dims"] + ["hash"])
    if case["w1"].get("fmt") == "fa" and "buffer" not in case["dims"]:
        # FASTA output is where the stream buffer size matters: always vary it there
        case["dims"] = sorted(case["dims"] + ["buffer"])
    return case


def _gen_case(rng, tier):
    return {
        "w1": gen_wl(rng),
        "w2": gen_wl(rng),
        "seeds": [1, 2, rng.randrange(3, 4_000_000)],
        "buf": rng.choice([1, 2, 7, 61, 1000, 4096]),
        "dims": sorted(rng.sample(["hash", "hash", "cwd", "buffer", "warm", "stale", "history", "format", "asmformat", "stdoutmode", "symlink"], rng.choice([3, 4, 5]))),
        "hist_seed": rng.getrandbits(32),
    }


class Outcome:
    def __init__(self, code, files, stderr=""):
        self.code, self.files, self.stderr = code, files, stderr


class Ctx:
    def __init__(self, case, root, tier):
        from tola.assembly.scripts import asm_format, pretext_to_asm

        self.p2a = pretext_to_asm
        self.af = asm_format
        self.case = case
        self.root = root
        self.tier = tier
        self.world = World(root)
        self.nout = 0
        self.evals = 0
        self.violations = []
        self.classes = set()
        self.cmp_counts = {}
        self.staged = {}
        self.history_log = []  # (outdir, snapshot at the time) for the re-check at the end
        self.discard = False
        self.nested = False
        self.current_dim = None

    # -- staging ---------------------------------------------------------------
    def stage(self, key):
        if key in self.staged:
            return self.staged[key]
        wl = self.case[key]
        d = os.path.join(self.root, "in_" + key)
        os.makedirs(d)
        if wl["kind"] == "specimen":
            s = [x for x in specimens() if x[0] == wl["specimen"]][0]
            asm = os.path.join(d, os.path.basename(s[1]))
            prt = os.path.join(d, os.path.basename(s[2]))
            shutil.copy(s[1], asm)
            shutil.copy(s[2], prt)
        else:
            asm = os.path.join(d, "g.fa" if wl["kind"] == "fasta" else "g.tpf")
            prt = os.path.join(d, "map.agp")
            Path(asm).write_text(wl["input"])
            Path(prt).write_text(wl["pretext"])
        for p in (asm, prt):
            self.world.stamp_path(p)
        self.world.advance(5)
        self.staged[key] = (d, asm, prt)
        return self.staged[key]

    def new_out(self):
        self.nout += 1
        d = os.path.join(self.root, f"out{self.nout:02d}")
        os.makedirs(d)
        return d

    # -- reading results -------------------------------------------------------
    def collect(self, outd, ind):
        files = {}
        with self.world.suspend():
            for fn in sorted(os.listdir(outd)):
                p = os.path.join(outd, fn)
                if os.path.isfile(p):
                    with open(p, "rb") as fh:
                        data = fh.read()
                    for path, ph in ((outd, b"<OUT>"), (ind, b"<IN>"), (self.root, b"<ROOT>")):
                        data = data.replace(path.encode(), ph)
                    data = data.replace(os.path.relpath(outd, ind).encode(), b"<OUT>")
                    files[fn] = data
        return files

    # -- running -----------------------------------------------------------------
    def p2a_args(self, key, outd, fmt=None, asm=None, rel_to=None, mode="normal"):
        wl = self.case[key]
        d, a, p = self.stage(key)
        a = asm or a
        fmt = fmt or wl["fmt"]
        o = os.path.join(outd, f"x.{fmt}")
        if rel_to:
            a, p, o = (os.path.relpath(x, rel_to) for x in (a, p, o))
        args = ["-a", a, "-p", p, "-o", o]
        if mode == "nolog":
            args.append("--no-write-log")
        elif mode == "stdout":
            args = ["-a", a, "-p", p]  # prints the assemblies to STDOUT, writes no files
        elif mode == "debug":
            args += ["--log-level", "DEBUG"]
        if wl.get("prefix") and wl["prefix"] != "SUPER_":
            args += ["-c", wl["prefix"]]
        if wl.get("log_level", "INFO") != "INFO" and mode != "debug":
            args += ["--log-level", wl["log_level"]]
        return args

    def forked(self, fn, name):
        """fn() as one simulated process that is a real (forked) one: it starts
        from this interpreter's state and takes what it did to module globals,
        memo tables and the logging tree with it when it ends.  The counters
        the child advanced are taken over."""
        def body():
            val = fn()
            return val, self.nout, self.evals

        proc = self.world.run_forked(body, name=name)
        kind, val = proc.outcome
        if kind != "returned":
            raise RuntimeError(f"simulated process {name!r} ended with {kind}: {val}")
        out, self.nout, self.evals = val
        return out

    def run_inproc(self, cli, args, prog, cwd=None, end=True):
        w = self.world

        def body():
            old = os.getcwd()
            if cwd:
                os.chdir(cwd)
            try:
                r = clirun.invoke(cli, args, prog=prog)
            finally:
                os.chdir(old)
            if end:
                clirun.end_of_process()
            if r.exc is not None:
                r.exc = repr(r.exc)
            return r

        start = len(w.trace)
        if self.nested:
            r = body()  # part of a longer-lived simulated process (in-process history)
        else:
            r = self.forked(body, prog)
        self.evals += 1
        w.advance(1)
        return r, w.trace[start:]

    def run_p2a(self, key, fmt=None, asm=None, cwd=None, end=True, mode="normal", reuse_out=None):
        outd = reuse_out or self.new_out()
        ind = self.stage(key)[0]
        args = self.p2a_args(key, outd, fmt=fmt, asm=asm, rel_to=cwd, mode=mode)
        r, trace = self.run_inproc(self.p2a.cli, args, "pretext-to-asm", cwd=cwd, end=end)
        oc = Outcome(r.code, self.collect(outd, ind), r.stderr)
        oc.trace = trace
        oc.outd = outd
        oc.ind = ind
        return oc

    def run_subprocess(self, module, args, seed, cwd=None):
        code = (
            "import sys; sys.path.insert(0, %r); "
            "from tola.assembly.scripts.%s import cli; cli()" % (os.path.realpath(REPO_SRC), module)
        )
        env = {k: v for k, v in os.environ.items() if k not in ("PYTHONHASHSEED", "PYTHONPATH")}
        env["PYTHONHASHSEED"] = str(seed)
        env["PYTHONDONTWRITEBYTECODE"] = "1"
        with self.world.suspend():
            p = subprocess.run(
                [sys.executable, "-c", code, *[os.fspath(a) for a in args]],
                env=env, cwd=cwd, capture_output=True, text=True, timeout=300, check=False,
            )
        self.evals += 1
        return p

    # -- comparing ---------------------------------------------------------------
    def compare(self, dim, ref, got, what, only_suffix=None, replay_extra=None, skip_log=False):
        self.cmp_counts[dim] = self.cmp_counts.get(dim, 0) + 1
        detail = None
        site = None
        if ref.code != got.code:
            detail = f"exit status {got.code} instead of {ref.code}; stderr: {got.stderr[-500:]}"
            site = "exit"
        else:
            a = {k: v for k, v in ref.files.items() if not only_suffix or k.endswith(only_suffix)}
            b = {k: v for k, v in got.files.items() if not only_suffix or k.endswith(only_suffix)}
            if skip_log:
                # the tool announces that it is replacing a stale cache file: the
                # log's content is compared in every other dimension
                a = {k: (v if not k.endswith(".log") else b"") for k, v in a.items()}
                b = {k: (v if not k.endswith(".log") else b"") for k, v in b.items()}
            if sorted(a) != sorted(b):
                detail = f"output file sets differ: {sorted(a)} vs {sorted(b)}"
                site = "fileset"
            else:
                for fn in sorted(a):
                    if a[fn] != b[fn]:
                        detail = f"{fn} differs:\n--- reference\n{_diff_excerpt(a[fn], b[fn])}"
                        site = "bytes:" + _kind_of(fn)
                        break
        if detail:
            self.violate("nondeterministic_" + dim, site, f"{what}: {detail}", dim, replay_extra)
            return False
        return True

    def violate(self, oracle, site, detail, dim, replay_extra=None):
        if any(v["oracle"] == oracle for v in self.violations):
            return
        case = copy.deepcopy(self.case)
        # (the replay runs the dimension that was running, under its method name)
        case["dims"] = [self.current_dim or dim]
        self.violations.append({
            "oracle": oracle, "site": site, "detail": detail[:1800],
            "replay": {"property": ID, "case": case, "case_full": copy.deepcopy(self.case), "expect": {"oracle": oracle}},
        })

    def classify(self, dim, key, ref):
        wl = self.case[key]
        txt = wl.get("pretext", "")
        tags = sorted(t for t in ("Painted", "Haplotig", "Unloc", "Contaminant", "Hap1", "\tX", "\tZ", "\tW", "B1") if t in txt)
        cuts = any(b"Cut" in v or b"cut into" in v for v in ref.files.values())
        if ref.code == 0 and len(ref.files) >= 2:
            self.classes.add(f"{dim} wl={wl['kind']} fmt={wl['fmt']} tags={'+'.join(t.strip() for t in tags)} cuts={int(cuts)}")

    # -- the dimensions ---------------------------------------------------------
    def dim_hash(self, ref):
        key = "w1"
        seeds = list(self.case["seeds"])
        if self.case["w1"].get("log_level") == "DEBUG" or self.tier == "thorough":
            # a two-element set comes out in the same order under two hash seeds
            # half of the time: look at more of them where sets are printed
            seeds = sorted(set(seeds + [3, 4, 5]))
        for seed in seeds:
            outd = self.new_out()
            ind = self.stage(key)[0]
            p = self.run_subprocess("pretext_to_asm", self.p2a_args(key, outd), seed)
            got = Outcome(p.returncode, self.collect(outd, ind), p.stderr)
            self.world.probe("fresh_interpreters")
            if not self.compare("hash_seed", ref, got, f"PYTHONHASHSEED={seed} in a fresh interpreter vs PYTHONHASHSEED={os.environ.get('PYTHONHASHSEED')} in-process"):
                return
        self.classify("hash_seed", key, ref)

    def dim_symlink(self, ref):
        """The --assembly path is a symbolic link: first to the FASTA itself, then
        re-pointed at another (older) FASTA with the same sequence names.  Each
        run must give what a run on the link's current target gives."""
        wl = self.case["w1"]
        if wl["kind"] != "fasta":
            return
        d, asm, prt = self.stage("w1")
        w = self.world
        alt = os.path.join(d, "alt")
        link = os.path.join(d, "link.fa")
        with w.suspend():
            os.makedirs(alt, exist_ok=True)
            lines = Path(asm).read_text().splitlines(keepends=True)
            out, masked = [], False
            for ln in lines:
                body = ln.rstrip("\r\n")
                if not masked and not ln.startswith(">") and len(body) >= 4 and body[1:-1].strip("ACGTacgt") == "":
                    # same length, same names: a stretch in the middle of a line hard-masked
                    k = max(1, len(body) // 3)
                    ln = body[:k] + "N" * (len(body) - 2 * k) + body[len(body) - k:] + ln[len(body):]
                    masked = True
                out.append(ln)
            if not masked:
                return
            other = os.path.join(alt, "g_b.fa")
            Path(other).write_text("".join(out))
            w.stamp_path(other, w.clock - 400)  # an older file
            if os.path.lexists(link):
                os.unlink(link)
            os.symlink("g.fa", link)
        ref_b = self.run_p2a("w1", asm=other)
        if ref_b.code != 0:
            return
        got = self.run_p2a("w1", asm=link)
        if not self.compare("symlink", ref, got, "--assembly given as a symbolic link to the same FASTA"):
            return
        with w.suspend():
            os.unlink(link)
            os.symlink(os.path.join("alt", "g_b.fa"), link)
        w.advance(2)
        got = self.run_p2a("w1", asm=link)
        self.compare("symlink", ref_b, got, "the link re-pointed at another, older FASTA with the same sequence names vs a run on that FASTA directly")
        self.classify("symlink", "w1", ref)

    def dim_stdoutmode(self, ref):
        """Without --output the assemblies are printed to STDOUT (STR format):
        that text is the output, under every hash seed and after other work."""
        key = "w1"
        ind = self.stage(key)[0]
        outd = self.new_out()
        args = self.p2a_args(key, outd, mode="stdout")
        r, _ = self.run_inproc(self.p2a.cli, args, "pretext-to-asm")
        base = Outcome(r.code, {"<STDOUT>": r.stdout.replace(ind, "<IN>").encode()}, r.stderr)
        for seed in sorted(set(self.case["seeds"] + [3])):
            p = self.run_subprocess("pretext_to_asm", args, seed)
            got = Outcome(p.returncode, {"<STDOUT>": p.stdout.replace(ind, "<IN>").encode()}, p.stderr)
            if not self.compare("stdout_mode", base, got, f"STDOUT of pretext-to-asm without --output: in-process vs fresh interpreter PYTHONHASHSEED={seed}"):
                return
        if base.code == 0:
            self.classes.add(f"stdout_mode wl={self.case[key]['kind']}")

    def dim_cwd(self, ref):
        d = self.stage("w1")[0]
        got = self.run_p2a("w1", cwd=d)
        if self.compare("cwd", ref, got, "relative arguments from inside the input directory"):
            other = os.path.join(self.root, "elsewhere")
            os.makedirs(other, exist_ok=True)
            got = self.run_p2a("w1", cwd=other)
            self.compare("cwd", ref, got, "relative arguments from an unrelated directory")
        self.classify("cwd", "w1", ref)

    def _drop_cache(self, key):
        d, asm, _ = self.stage(key)
        with self.world.suspend():
            for sfx in (".fai", ".agp"):
                try:
                    os.unlink(asm + sfx)
                except FileNotFoundError:
                    pass

    def dim_buffer(self, ref):
        if self.case["w1"]["kind"] != "fasta":
            return
        from tola.fasta import index as index_mod

        for b in sorted({1, self.case["buf"]}):
            # (with buffer 1 the indexer flushes after every line, with the seeded
            # size somewhere inside the records)
            self._drop_cache("w1")
            d1 = inspect.unwrap(index_mod.FastaIndex.__init__).__defaults__
            d2 = inspect.unwrap(index_mod.index_fasta_file).__defaults__
            inspect.unwrap(index_mod.FastaIndex.__init__).__defaults__ = (b,)
            inspect.unwrap(index_mod.index_fasta_file).__defaults__ = (b,)
            try:
                got = self.run_p2a("w1")
            finally:
                inspect.unwrap(index_mod.FastaIndex.__init__).__defaults__ = d1
                inspect.unwrap(index_mod.index_fasta_file).__defaults__ = d2
            if not self.compare("buffer", ref, got, f"stream buffer size {b} (cold cache) vs the default"):
                return
            # the cache it wrote is now read back by a default-buffer run
            got2 = self.run_p2a("w1")
            if not self.compare("buffer", ref, got2, f"default buffer reading the cache written with buffer size {b}"):
                return
        self.classify("buffer", "w1", ref)

    def dim_warm(self, ref):
        if self.case["w1"]["kind"] != "fasta":
            return
        self.world.advance(2)
        got = self.run_p2a("w1")
        asm = self.stage("w1")[1]
        rel = os.path.relpath(asm, self.root)
        wrote = any(t[3].startswith(rel + ".") and is_mutating_op(t[2]) for t in got.trace)
        self.world.probe("warm_run_took_load_path" if not wrote else "warm_run_rebuilt_cache")
        if self.compare("cache_warm", ref, got, "index cache loaded from disk vs freshly built"):
            self._drop_cache("w1")
            got = self.run_p2a("w1")
            self.compare("cache_warm", ref, got, "index cache rebuilt after deletion vs first build")
        self.classify("cache_warm", "w1", ref)

    def dim_stale(self, ref):
        """Cache states that histories of FASTA edits, deletions and partial
        re-indexing (e.g. `samtools faidx` regenerating only the .fai) leave
        behind: the outputs must not depend on them."""
        if self.case["w1"]["kind"] != "fasta":
            return
        from tola.fasta import index as index_mod

        rng = random.Random(self.case["hist_seed"] ^ 0x57A1E)
        d, asm, _ = self.stage("w1")
        w = self.world
        state = rng.choice(["fai_only", "agp_only", "stale_both", "fresh_fai_stale_agp", "stale_fai_fresh_agp", "stale_both_tie"])
        state = self.case.get("stale_state") or state
        with w.suspend():
            orig = Path(asm).read_bytes()
            fresh = {}
            self._drop_cache("w1")
            index_mod.FastaIndex(Path(asm)).run_indexing()
            for sfx in (".fai", ".agp"):
                fresh[sfx] = Path(asm + sfx).read_bytes()
            # an older version of the FASTA: residues of the first record partly masked, last record dropped if there are several
            lines = orig.decode().splitlines(keepends=True)
            heads = [i for i, ln in enumerate(lines) if ln.startswith(">")]
            old = list(lines)
            # always the same names with other residues somewhere (a stale cache that only a
            # comparison of mtimes can tell from a fresh one); sometimes a record less as well
            seq_lines = [i for i in range(1, len(old)) if not old[i].startswith(">") and any(c in "ACGTacgt" for c in old[i])]
            if seq_lines:
                i = rng.choice(seq_lines)
                old[i] = "N" * (len(old[i]) - 1) + "\n"
            else:
                old.append(">extra_old\nACGTACGT\n")
            if len(heads) > 1 and rng.random() < 0.25:
                old = old[: heads[-1]]
            Path(asm).write_text("".join(old))
            self._drop_cache("w1")
            index_mod.FastaIndex(Path(asm)).run_indexing()
            stale = {sfx: Path(asm + sfx).read_bytes() for sfx in (".fai", ".agp")}
            self._drop_cache("w1")
            t_old = w.clock
            w.advance(3)
            Path(asm).write_bytes(orig)
            w.stamp_path(asm)
            t_fa = w.clock
            w.advance(2)
            plan = {
                "fai_only": {".fai": ("fresh", w.clock)},
                "agp_only": {".agp": ("fresh", w.clock)},
                "stale_both": {".fai": ("stale", t_old), ".agp": ("stale", t_old)},
                "stale_both_tie": {".fai": ("stale", t_fa), ".agp": ("stale", t_fa)},
                "fresh_fai_stale_agp": {".fai": ("fresh", w.clock), ".agp": ("stale", t_old)},
                "stale_fai_fresh_agp": {".fai": ("stale", t_old), ".agp": ("fresh", w.clock)},
            }[state]
            for sfx, (which, when) in plan.items():
                Path(asm + sfx).write_bytes(fresh[sfx] if which == "fresh" else stale[sfx])
                w.stamp_path(asm + sfx, when)
            w.advance(2)
        w.probe("stale_state_" + state)
        got = self.run_p2a("w1")
        self.compare("cache_state", ref, got, f"index cache left in state {state!r} by earlier edits vs no cache at all", skip_log=True)
        self.classify("cache_state:" + state, "w1", ref)

    ODD_TPF = (
        "?\tctgA:1-500\tscfA\tPLUS\n"
        "GAP\tSCAFFOLD\t200\n"
        "?\tctgB:1-300\tscfA\tMINUS\n"
        "GAP\tCONTIG\t10\n"
        "?\tctgC:11-90\tscfA\tPLUS\n"
        "GAP\tREPEAT\t7\n"
        "?\tctgD:1-40\tscfA\tPLUS\n"
        "GAP\tSHORT_ARM\t3\n"
        "?\tctgD2:1-40\tscfA\tPLUS\n"
        "GAP\tcentromere\t4\n"
        "?\tctgD3:1-40\tscfA\tPLUS\n"
        "GAP\tshort-arm\t6\n"
        "?\tctgD4:1-40\tscfA\tPLUS\n"
        "GAP\tTYPE-2\t100\n"
        "?\tctgE:1-40\tscfB\tPLUS\n"
        "?\tctgF:1-40\tscfB\tPLUS\n"
    )

    ODD_AGP = (
        "# odd spellings of the gap type column\n"
        "scfA\t1\t500\t1\tW\tctgA\t1\t500\t+\n"
        "scfA\t501\t700\t2\tU\t200\tScaffold\tyes\tproximity_ligation\n"
        "scfA\t701\t1000\t3\tW\tctgB\t1\t300\t-\n"
        "scfA\t1001\t1100\t4\tN\t100\tSCAFFOLD\tyes\tpaired-ends\n"
        "scfA\t1101\t1180\t5\tW\tctgC\t11\t90\t?\n"
        "scfA\t1181\t1190\t6\tU\t10\tContig\tno\tna\n"
        "scfA\t1191\t1230\t7\tW\tctgD\t1\t40\t+\n"
        "scfB\t1\t5\t1\tU\t5\tScaffold\tyes\tproximity_ligation\n"
        "scfB\t6\t45\t2\tW\tctgE\t1\t40\t+\n"
        "scfB\t46\t46\t3\tU\t1\tScaffold\tyes\tproximity_ligation\n"
        "scfB\t47\t86\t4\tW\tctgF\t1\t40\t+\n"
        # component type N (gap of known length) with the canonical spelling, for
        # the gap lengths other inputs use; rows that repeat a tag
        "scfC\t1\t40\t1\tW\tctgG\t1\t40\t+\tPainted\tX\tHaplotig\tPainted\n"
        "scfC\t41\t240\t2\tN\t200\tscaffold\tyes\tproximity_ligation\n"
        "scfC\t241\t280\t3\tW\tctgH\t1\t40\t-\tHap1\tUnloc\tZ\tHap1\tUnloc\n"
        "scfC\t281\t380\t4\tN\t100\tscaffold\tyes\tproximity_ligation\n"
        "scfC\t381\t420\t5\tW\tctgI\t1\t40\t+\n"
        "scfC\t421\t430\t6\tN\t10\tscaffold\tyes\tproximity_ligation\n"
        "scfC\t431\t470\t7\tW\tctgJ\t1\t40\t+\n"
        "scfC\t471\t475\t8\tN\t5\tscaffold\tyes\tproximity_ligation\n"
        "scfC\t476\t515\t9\tW\tctgK\t1\t40\t+\n"
        "scfC\t516\t516\t10\tN\t1\tscaffold\tyes\tproximity_ligation\n"
        "scfC\t517\t556\t11\tW\tctgL\t1\t40\t+\n"
    )

    # the same gap types as ODD_TPF / ODD_AGP, spelt the canonical way
    ODD2_TPF = (
        "?\tctgM:1-500\tscfM\tPLUS\n"
        "GAP\tSHORT-ARM\t12\n"
        "?\tctgN:1-300\tscfM\tMINUS\n"
        "GAP\tCENTROMERE\t10\n"
        "?\tctgO:11-90\tscfM\tPLUS\n"
        "GAP\tTYPE-3\t7\n"
        "?\tctgP:1-40\tscfM\tPLUS\n"
        "GAP\tTYPE-2\t200\n"
        "?\tctgQ:1-40\tscfM\tPLUS\n"
        "GAP\tREPEAT\t9\n"
        "?\tctgR:1-40\tscfM\tPLUS\n"
    )

    def run_odd_asmformat(self, fmt):
        """asm-format on a TPF that spells its gap types differently from what
        the tools write (SCAFFOLD, CONTIG, REPEAT): whatever parsing it teaches
        the process must not show in later outputs."""
        d = os.path.join(self.root, "in_odd")
        if not os.path.isdir(d):
            os.makedirs(d)
            Path(os.path.join(d, "odd.tpf")).write_text(self.ODD_TPF)
            self.world.stamp_path(os.path.join(d, "odd.tpf"))
        if not os.path.exists(os.path.join(d, "odd.agp")):
            Path(os.path.join(d, "odd.agp")).write_text(self.ODD_AGP)
            self.world.stamp_path(os.path.join(d, "odd.agp"))
        outd = self.new_out()
        r, trace = self.run_inproc(self.af.cli, [os.path.join(d, "odd.tpf"), "-o", os.path.join(outd, f"odd.{fmt}")], "asm-format", end=False)
        # ... and an AGP whose gap-type column is capitalised differently
        r2, _t2 = self.run_inproc(self.af.cli, [os.path.join(d, "odd.agp"), "-o", os.path.join(outd, f"odd2.{fmt}")], "asm-format", end=False)
        oc = Outcome(r.code or r2.code, self.collect(outd, d), r.stderr + r2.stderr)
        oc.outd, oc.ind = outd, d
        return oc

    def swap_inputs(self, src_key):
        """The user replaces the files in w1's input directory by the content of
        another workload (later mtime) and removes the index cache files."""
        _d, asm, prt = self.staged["w1"]
        wl = self.case[src_key]
        with self.world.suspend():
            Path(asm).write_text(wl["input"])
            Path(prt).write_text(wl["pretext"])
            for ext in (".fai", ".agp"):
                if os.path.lexists(asm + ext):
                    os.unlink(asm + ext)
        self.world.advance(3)
        for p in (asm, prt):
            self.world.stamp_path(p)
        self.world.advance(3)
        self.world.probe("history_inputs_rewritten_in_place")

    def dim_history(self, ref):
        """Other invocations first, without the end-of-process clean-up in
        between, then the same inputs again; finally every earlier run's files
        must still be what they were when that run finished."""
        rng = random.Random(self.case["hist_seed"])
        done = []
        steps = rng.choice([["w2", "w1"], ["w2", "af", "w1"], ["w1", "w2", "w1"], ["af", "w2", "w2", "w1"], ["w2", "w1", "af", "w1"],
                            ["af", "w1"], ["w2", "af", "w1"], ["w1", "w1"], ["w2", "w1", "w1"],
                            ["w2x", "w1"], ["w1", "w2x", "w1"], ["w2", "w2x", "af", "w1"]])
        # "w2x": an invocation on w1's PATHS while they hold w2's content (the user then
        # puts w1's content back, with a later mtime): possible when both are generated
        # workloads of the same kind, i.e. use the same file names
        if not (self.case["w1"]["kind"] == self.case["w2"]["kind"] != "specimen"):
            steps = [("w2" if x == "w2x" else x) for x in steps]
        box = {"last": None, "first_w1": None}
        # (an immediately repeated command always goes over its own outputs)
        reuse_last = rng.random() < 0.5 or steps[-2:] == ["w1", "w1"]
        # ... or over the output files which the other workload has just written there
        over_w2 = steps[-2:] == ["w2", "w1"] and rng.random() < 0.5
        afmt = [rng.choice(["tpf", "agp"]) for _ in steps]
        # invocations before the last one may log elsewhere or not at all
        modes = [rng.choice(["normal", "normal", "nolog", "stdout", "debug"]) for _ in steps]
        modes[-1] = "normal"
        if steps[-2:] == ["w1", "w1"]:
            modes[-2] = "normal"
        for key in ("w1", "w2"):
            self.stage(key)

        def whole_history():
            # one simulated process performs all the invocations
            self.nested = True
            try:
                for k, st in enumerate(steps):
                    if st == "w2x":
                        self.swap_inputs("w2")
                        oc = self.run_p2a("w1", end=False, mode=modes[k])
                        self.swap_inputs("w1")
                        done.append((st, oc))
                        continue
                    if st == "af":
                        oc = self.run_asmformat("w2", afmt[k], end=False)
                        done.append((st, oc))
                        oc = self.run_odd_asmformat(afmt[k])
                    else:
                        reuse = None
                        if st == "w1" and k == len(steps) - 1 and reuse_last and box["first_w1"] is not None:
                            # the same command again, over its own earlier outputs (default --clobber)
                            reuse = box["first_w1"].outd
                        if over_w2 and k == len(steps) - 2:
                            box["shared"] = self.new_out()
                            reuse = box["shared"]
                        if over_w2 and k == len(steps) - 1:
                            reuse = box["shared"]
                            with self.world.suspend():
                                box["pre"] = sorted(os.listdir(reuse))
                        oc = self.run_p2a(st, end=False, mode=modes[k], reuse_out=reuse)
                        if st == "w1" and modes[k] == "normal":
                            box["last"] = oc
                            if box["first_w1"] is None:
                                box["first_w1"] = oc
                    done.append((st, oc))
                clirun.end_of_process()  # the process ends: exit callbacks, logging shut down
            finally:
                self.nested = False
            return done, box

        done, box = self.forked(whole_history, "history")
        last = box["last"]
        if box.get("pre") is not None and last is not None:
            # files the other workload left there and this run does not write are not its outputs
            last.files = {k: v for k, v in last.files.items() if k in ref.files or k not in box["pre"]}
            self.world.probe("history_final_run_over_other_outputs")
        ok = self.compare("history", ref, last, f"after the in-process invocations {list(zip(steps, modes))[:-1]} vs a fresh process")
        if ok:
            for st, oc in done:
                if oc is not last and oc.outd == last.outd:
                    continue  # overwritten on purpose by the final run
                now = Outcome(oc.code, self.collect(oc.outd, oc.ind))
                if oc is last and box.get("pre") is not None:
                    now.files = {k: v for k, v in now.files.items() if k in ref.files or k not in box["pre"]}
                if not self.compare("history", oc, now, f"files of the earlier in-process invocation {st!r} re-read at the end of the history {steps}"):
                    break
        clirun.end_of_process()
        self.classify("history", "w1", ref)

    def run_asmformat(self, key, fmt, end=True, subprocess_seed=None):
        wl = self.case[key]
        d, asm, prt = self.stage(key)
        src = prt if wl["kind"] == "fasta" else asm
        outd = self.new_out()
        if fmt in ("STR", "REPR"):
            args = [src, "-o", os.path.join(outd, "y.txt"), "-f", fmt, "-n", "named"]
        elif fmt == "stdout":
            args = [src, "-f", "TPF"]
        else:
            args = [src, "-o", os.path.join(outd, f"y.{fmt}")]
        if subprocess_seed is not None:
            p = self.run_subprocess("asm_format", args, subprocess_seed)
            oc = Outcome(p.returncode, self.collect(outd, d), p.stderr)
        else:
            r, trace = self.run_inproc(self.af.cli, args, "asm-format", end=end)
            oc = Outcome(r.code, self.collect(outd, d), r.stderr)
        oc.outd, oc.ind = outd, d
        return oc

    def run_asmformat_rel(self, key, fmt, cwd):
        """asm-format without --name, the input given relative to the working directory."""
        wl = self.case[key]
        d, asm, prt = self.stage(key)
        src = prt if wl["kind"] == "fasta" else asm
        outd = self.new_out()
        args = [os.path.relpath(src, cwd), "-o", os.path.join(outd, "y.txt"), "-f", fmt]
        r, _trace = self.run_inproc(self.af.cli, args, "asm-format", cwd=cwd)
        oc = Outcome(r.code, self.collect(outd, d), r.stderr)
        oc.outd, oc.ind = outd, d
        return oc

    def after_odd_inputs(self, fmt):
        """One process formats the oddly spelt files and then a canonically spelt
        one; a fresh interpreter formats only the latter: same output."""
        d = os.path.join(self.root, "in_odd")
        os.makedirs(d, exist_ok=True)
        for name, text in (("odd.tpf", self.ODD_TPF), ("odd.agp", self.ODD_AGP), ("odd2.tpf", self.ODD2_TPF)):
            pth = os.path.join(d, name)
            if not os.path.exists(pth):
                Path(pth).write_text(text)
                self.world.stamp_path(pth)
        box = {}

        def seq():
            self.nested = True
            try:
                for name in ("odd.tpf", "odd.agp"):
                    o = self.new_out()
                    self.run_inproc(self.af.cli, [os.path.join(d, name), "-o", os.path.join(o, "o." + fmt)], "asm-format", end=False)
                outd = self.new_out()
                r, _t = self.run_inproc(self.af.cli, [os.path.join(d, "odd2.tpf"), "-o", os.path.join(outd, "z." + fmt)], "asm-format", end=False)
                box["oc"] = Outcome(r.code, self.collect(outd, d), r.stderr)
                clirun.end_of_process()
            finally:
                self.nested = False
            return box["oc"]

        box["oc"] = self.forked(seq, "asm-format-sequence")
        outd = self.new_out()
        p = self.run_subprocess("asm_format", [os.path.join(d, "odd2.tpf"), "-o", os.path.join(outd, "z." + fmt)], self.case["seeds"][-1])
        alone = Outcome(p.returncode, self.collect(outd, d), p.stderr)
        return self.compare("asm_format", alone, box["oc"], f"asm-format of a canonically spelt TPF -> {fmt} after two oddly spelt inputs in the same process vs alone in a fresh interpreter")

    def run_asmformat_multi(self, fmt, subprocess_seed=None):
        """asm-format with several input files: one output holding all of them, in argument order."""
        srcs = []
        for key in ("w1", "w2"):
            wl = self.case[key]
            d, asm, prt = self.stage(key)
            srcs.append(prt if wl["kind"] == "fasta" else asm)
        d = os.path.join(self.root, "in_odd")
        if not os.path.isdir(d):
            os.makedirs(d)
            Path(os.path.join(d, "odd.tpf")).write_text(self.ODD_TPF)
            self.world.stamp_path(os.path.join(d, "odd.tpf"))
        if not os.path.exists(os.path.join(d, "odd.agp")):
            Path(os.path.join(d, "odd.agp")).write_text(self.ODD_AGP)
            self.world.stamp_path(os.path.join(d, "odd.agp"))
        srcs.append(os.path.join(d, "odd.tpf"))
        srcs.append(os.path.join(d, "odd.agp"))
        srcs.append(srcs[0])  # the same file twice is legal too
        outd = self.new_out()
        args = [*srcs, "-o", os.path.join(outd, f"all.{fmt}")]
        if subprocess_seed is not None:
            p = self.run_subprocess("asm_format", args, subprocess_seed)
            oc = Outcome(p.returncode, self.collect(outd, d), p.stderr)
        else:
            r, _trace = self.run_inproc(self.af.cli, args, "asm-format")
            oc = Outcome(r.code, self.collect(outd, d), r.stderr)
        oc.outd, oc.ind = outd, d
        return oc

    def dim_asmformat(self, ref):
        fmt = "agp" if self.case["hist_seed"] % 2 else "tpf"
        base = self.run_asmformat_multi(fmt)
        for seed in sorted(set(self.case["seeds"] + [3])):
            got = self.run_asmformat_multi(fmt, subprocess_seed=seed)
            if not self.compare("asm_format", base, got, f"asm-format of four input files -> one {fmt}: in-process vs fresh interpreter PYTHONHASHSEED={seed}"):
                return
        if not self.after_odd_inputs(fmt):
            return
        for fmt in ("STR", "REPR", "TPF"):
            here = self.run_asmformat_rel("w1", fmt, self.stage("w1")[0])
            there = self.run_asmformat_rel("w1", fmt, self.root)
            if not self.compare("asm_format", here, there, f"asm-format -> {fmt} without --name: input given relative to two different working directories"):
                return
        for fmt in ("tpf", "agp", "STR", "REPR", "stdout"):
            a = self.run_asmformat("w1", fmt)
            b = self.run_asmformat("w1", fmt, subprocess_seed=self.case["seeds"][-1])
            if not self.compare("asm_format", a, b, f"asm-format -> {fmt}: in-process vs fresh interpreter PYTHONHASHSEED={self.case['seeds'][-1]}"):
                return

            def twice(fmt=fmt):
                self.nested = True
                try:
                    self.run_asmformat("w1", fmt, end=False)
                    c = self.run_asmformat("w1", fmt, end=False)
                    clirun.end_of_process()
                finally:
                    self.nested = False
                return c

            c = self.forked(twice, "asm-format-twice")
            if not self.compare("asm_format", a, c, f"asm-format -> {fmt}: second in-process invocation"):
                return
        clirun.end_of_process()
        if a.code == 0:
            self.classes.add(f"asm_format wl={self.case['w1']['kind']}")

    def dim_format(self, ref):
        """The same input assembly supplied as FASTA, as the AGP derived from
        it and as the TPF converted from that: same output assemblies."""
        wl = self.case["w1"]
        if wl["kind"] != "fasta":
            return
        d, asm, prt = self.stage("w1")
        lines0 = wl["input"].splitlines()
        unrepresentable = any(
            ln.startswith(">#") or (ln.startswith(">") and (i + 1 == len(lines0) or lines0[i + 1].startswith(">")))
            for i, ln in enumerate(lines0)
        )
        if unrepresentable:
            # names beginning with '#' and records without residues cannot be
            # written as AGP or TPF at all: "for assemblies all three can carry"
            self.world.probe("format_dimension_skipped_unrepresentable")
            return
        base = self.run_p2a("w1", fmt="tpf")
        if base.code != 0:
            return
        agp_in = os.path.join(d, "same.agp")
        tpf_in = os.path.join(d, "same.tpf")
        with self.world.suspend():
            if not os.path.exists(asm + ".agp"):
                return
            shutil.copy(asm + ".agp", agp_in)
        r, _ = self.run_inproc(self.af.cli, [agp_in, "-o", tpf_in], "asm-format")
        if r.code != 0:
            self.world.probe("format_dimension_not_convertible")
            return
        # TPF cannot carry a scaffold that begins with a gap ("for assemblies all
        # three can carry"): records beginning with N are compared as AGP only
        lines = wl["input"].splitlines()
        leading_gap = any(ln.startswith(">") and i + 1 < len(lines) and lines[i + 1][:1] not in tuple("ACGTacgt")
                          for i, ln in enumerate(lines))
        variants = [(agp_in, "AGP")] + ([] if leading_gap else [(tpf_in, "TPF")])
        if leading_gap:
            self.world.probe("format_dimension_tpf_skipped_leading_gap")
        for other, label in variants:
            got = self.run_p2a("w1", fmt="tpf", asm=other)
            if not self.compare("input_format", base, got, f"input assembly supplied as {label} instead of FASTA", only_suffix=".tpf"):
                return
        self.classify("input_format", "w1", base)

    # -- driver ----------------------------------------------------------------
    def run(self):
        w = self.world
        with w:
            ref = self.run_p2a("w1")
            self.evals -= 1
            if ref.code != 0:
                self.discard = True
                return
            self.ref = ref
            for dim in self.case["dims"]:
                if self.violations:
                    break
                self.current_dim = dim
                getattr(self, "dim_" + dim)(ref)
            self.current_dim = None
            # the reference run's own files must not have been touched by anything later
            now = Outcome(ref.code, self.collect(ref.outd, ref.ind))
            if not self.violations:
                self.compare("history", ref, now, "files of the reference run re-read at the end of all invocations")


def _kind_of(fn):
    for pat, k in ((".log", "log"), (".info.yaml", "yaml"), (".csv", "csv"), (".agp", "agp"), (".tpf", "tpf"), (".fa", "fasta"), (".fasta", "fasta")):
        if fn.endswith(pat):
            return k
    return "other"


def _diff_excerpt(a, b):
    la, lb = a.decode("utf-8", "replace").splitlines(), b.decode("utf-8", "replace").splitlines()
    for i in range(max(len(la), len(lb))):
        x = la[i] if i < len(la) else "<eof>"
        y = lb[i] if i < len(lb) else "<eof>"
        if x != y:
            return f"line {i + 1}: {x!r}\n+++ variant\nline {i + 1}: {y!r}"
    return "(same lines, different line endings?)"


def execute_case(case, run_seed, tier, tag=""):
    root = sandbox.make(ID, tier, run_seed, tag)
    try:
        ctx = Ctx(case, root, tier)
        try:
            ctx.run()
        finally:
            clirun.end_of_process()
        w = ctx.world
        return {
            "digest": digest_of([w.trace, sorted(ctx.classes), [v["oracle"] for v in ctx.violations]]),
            "events": w.events,
            "sim_seconds": w.sim_seconds,
            "faults": {},
            "probes": dict(w.probes),
            "classes": sorted(ctx.classes),
            "evals": ctx.evals,
            "violations": ctx.violations,
            "discarded": 1 if ctx.discard else 0,
            "extra": {"comparisons_" + k: v for k, v in ctx.cmp_counts.items()},
        }
    finally:
        sandbox.remove(root)


# the first runs of every batch are workloads of given shapes (still seeded), so that
# the rarer curation shapes are met in every batch and not only in most of them
CANNED = [
    # a short scaffold spliced into a broken one, FASTA written, buffer size varied
    {"force": ("splice", "lines_of_60", "few_gaps"), "haps": False, "fmt": "fa", "dims": ["buffer", "warm"]},
    {"force": ("splice", "lines_of_60", "few_gaps"), "haps": False, "fmt": "fa", "dims": ["buffer", "cwd"]},
    {"force": ("splice", "lines_of_60", "few_gaps"), "haps": False, "fmt": "fasta", "dims": ["buffer", "symlink"]},
    # three haplotypes, a Primary scaffold whose haplotype tag disagrees with its first contig
    {"force": ("three_haps", "primary_mismatch"), "haps": True, "fmt": "agp", "dims": ["hash", "history"]},
    # the same haplotype spelt two ways, many "No overlaps found" warnings, repeated in one process
    {"force": ("double_spelt", "junk"), "haps": True, "fmt": "agp", "dims": ["hash", "history"]},
    {"force": ("junk",), "haps": False, "fmt": "tpf", "dims": ["history", "stale"]},
    # one cache file fresh, the other left over from an older FASTA with the same names
    {"force": (), "haps": False, "fmt": "agp", "dims": ["stale", "warm"], "stale_state": "fresh_fai_stale_agp"},
    {"force": (), "haps": False, "fmt": "fa", "dims": ["stale", "buffer"], "stale_state": "stale_fai_fresh_agp"},
]


def canned_case(rng, tier, spec):
    case = _gen_case(rng, tier)
    for _ in range(200):
        w = genmap.gen_workload(rng, fasta_backed=True, haps=spec["haps"], force=spec["force"])
        if w is not None:
            break
    else:
        return gen_case(rng, tier)
    wl = _wl_dict(rng, True, w)
    wl["fmt"] = spec["fmt"]
    case["w1"] = wl
    case["dims"] = sorted(spec["dims"])
    if spec.get("stale_state"):
        case["stale_state"] = spec["stale_state"]
    return case


def run_one(run_seed, i, tier):
    rng = random.Random(run_seed)
    ncanned = len(CANNED) * (1 if tier == "quick" else 8)
    case = canned_case(rng, tier, CANNED[i % len(CANNED)]) if i < ncanned else gen_case(rng, tier)
    res = execute_case(case, run_seed, tier)
    if i < 2:
        res["sample"] = {
            "dims": case["dims"], "seeds": case["seeds"], "buf": case["buf"],
            "w1": {k: (v if not isinstance(v, str) or len(v) < 400 else v[:400] + "...") for k, v in case["w1"].items()},
        }
    return res


def replay(obj):
    return execute_case(obj["case"], 0xC17, "thorough", tag="r")


def full_replay(rep):
    if "case_full" not in rep:
        return None
    return {"property": ID, "case": rep["case_full"], "expect": rep.get("expect")}


def shrink_candidates(obj):
    case = obj["case"]
    if len(case["seeds"]) > 1:
        for k in range(len(case["seeds"])):
            c = copy.deepcopy(obj)
            del c["case"]["seeds"][k]
            yield c
    for key in ("w1", "w2"):
        wl = case[key]
        if wl["kind"] == "specimen":
            continue
        lines = wl["pretext"].splitlines(keepends=True)
        body = [i for i, ln in enumerate(lines) if ln.strip() and not ln.startswith("#")]
        for i in reversed(body):
            c = copy.deepcopy(obj)
            nl = list(lines)
            del nl[i]
            c["case"][key]["pretext"] = "".join(nl)
            yield c


def evidence_extra(agg):
    return {
        "faults_note": "no I/O faults apply to this property; the injected nondeterminism is hash seed, cwd, buffer knob, cache state "
                       "(simulated clock), in-process history and input format",
    }
