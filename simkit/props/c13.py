"""C13 - streaming is buffer-size independent and memory-bounded.
(DESIGN.md section 4.1)

The deciding dimension is the knob: the indexer/streamer buffer size, together
with the stdio buffer below the FASTA reader and short raw reads.  Monitors sit
at the reader seam (every user-level read on the FASTA handle), at the chunk
seam (get_sequence_iter / get_gap_iter), at the writer seam (every write to
the output stream) and at the allocator (tracemalloc on long cases).
"""

from __future__ import annotations

import inspect
import copy
import gc
import io
import logging
import os
import random
import tracemalloc
from pathlib import Path

from .. import gen, sandbox
from ..repo import asm_canon, index_canon
from ..runner import digest_of
from ..world import World

ID = "C13"
LEVEL = "exploration"
RULE = (
    "run = generated FASTA (1-6 records, line width 1-80, LF/CRLF, N/IUPAC runs) + generated assembly over it (fragments on both "
    "strands starting/ending mid-line, gaps 0..several buffers) x 8-12 buffer sizes drawn from {1,2,3,5,7, width-1,width,width+1, "
    "longest fragment +-1, longest gap +-1, powers of two, larger than everything} x stdio buffer knob x short raw reads; for every "
    "buffer size the index, derived assembly, cache-file bytes and streamed FASTA bytes must equal those of the largest buffer, while "
    "monitors check every read on the FASTA handle, every yielded chunk and every write to the output against the buffer-size bound; "
    "dedicated long cases (sequence / fragment / gap 40x and 400x the buffer) are measured with tracemalloc. An evaluation is one "
    "(workload, buffer size) execution of index+stream. A case is distinct+non-trivial by (buffer vs line width <,=,>; buffer vs "
    "longest fragment <,=,>; buffer vs longest gap <,=,>; reverse strand present; several chunks; exact multiple) and only if the "
    "buffer is smaller than at least one record, i.e. a mid-record flush or a multi-chunk fragment really happened."
)
ASSUMPTIONS = [
    "whether the common result is right is C03/C04/C14's business; only independence of the knob and the memory bound are decided here",
    "bounds are the property's: at most buffer-size residues of one sequence, fragment or gap, plus one input line and its terminators",
    "tracemalloc sees Python-level allocations only; the interpreter's own 8 KiB stdio buffer is a constant and inside the slack",
]


def plan(tier):
    if tier == "thorough":
        return {"runs": 30000, "chunk": 40, "wall_budget": 3300, "resample": 20, "hang_s": 900}
    return {"runs": 800, "chunk": 8, "wall_budget": 900, "resample": 10}


# ---------------------------------------------------------------------------
# workload
# ---------------------------------------------------------------------------


def gen_case(rng):
    fa = gen.gen_fasta(rng, max_records=6, max_len=300)
    fa["final_newline"] = True if rng.random() < 0.9 else fa["final_newline"]
    # assembly over the FASTA: lengths are clipped to the indexed lengths at run time
    nsc = rng.choice([1, 1, 2, 3])
    scaffolds = []
    for s in range(nsc):
        rows = []
        for _ in range(rng.choice([1, 2, 3, 5])):
            if rows and rng.random() < 0.35:
                rows.append(["G", rng.choice([0, 1, 2, 5, 7, 8, 16, 60, 61, 100, 257])])
            rec = rng.randrange(len(fa["records"]))
            rows.append(["F", rec, rng.random(), rng.random(), rng.choice([1, 1, -1])])
        scaffolds.append({"name": f"out{s + 1}", "rows": rows})
    widths = sorted({r["width"] for r in fa["records"]})
    lens = sorted({len(r["seq"]) for r in fa["records"]})
    pool = {1, 2, 3, 5, 7, 4, 8, 16, 32, 64, 128, 1000, 250_000}
    for w in widths:
        pool.update({max(1, w - 1), w, w + 1})
    for L in lens:
        pool.update({max(1, L - 1), L, L + 1})
    pool = sorted(x for x in pool if x >= 1)
    bufs = sorted(set(rng.sample(pool, min(len(pool), rng.randint(7, 11))) + [250_000, 1]))
    knobs = {
        "read_buf": rng.choice([1, 2, 3, 7, 16, 61, 64, 100, 4096, 8192]),
        "short_reads": rng.random() < 0.4,
        "short_seed": rng.getrandbits(32),
        "line_length": rng.choice([60, 60, 60, 1, 7, 61, 1000, 10 ** 9]),
    }
    case = {"fasta": fa, "scaffolds": scaffolds, "bufs": bufs, "knobs": knobs}
    # the order in which the buffer sizes are used within one process: usually
    # largest first; sometimes shuffled, so that state which the code keeps
    # between calls (a pooled buffer, a remembered position) meets a LARGER
    # buffer size after a smaller one
    if rng.random() < 0.4:
        order = list(bufs)
        rng.shuffle(order)
        case["bufs"] = order
        case["ordered"] = True
    return case


class _OutBase:
    """What a binary output stream offers besides write() (the streamer may
    use any of it): writelines goes through write, item by item, as
    io.IOBase.writelines does."""

    def writelines(self, lines):
        for line in lines:
            self.write(line)

    def flush(self):
        pass

    def writable(self):
        return True

    def close(self):
        pass


class Sink(_OutBase):
    """Output stream: records the size of every write."""

    def __init__(self, keep=True):
        self.sizes = [] if keep else None
        self.data = bytearray() if keep else None
        self.total = 0
        self.largest = 0

    def write(self, b):
        n = len(b)
        self.total += n
        if n > self.largest:
            self.largest = n
        if self.data is not None:
            self.sizes.append(n)
            self.data += b
        return n


class Bad(Exception):
    def __init__(self, oracle, site, detail):
        super().__init__(detail)
        self.oracle, self.site, self.detail = oracle, site, detail


def build_assembly(case, idx):
    from tola.assembly.assembly import Assembly
    from tola.assembly.fragment import Fragment
    from tola.assembly.gap import Gap
    from tola.assembly.scaffold import Scaffold

    names = list(idx)
    asm = Assembly("out")
    longest_frag = 0
    longest_gap = 0
    rev = False
    for sc in case["scaffolds"]:
        s = Scaffold(sc["name"])
        for r in sc["rows"]:
            if r[0] == "G":
                s.add_row(Gap(r[1], "scaffold"))
                longest_gap = max(longest_gap, r[1])
            else:
                name = names[r[1] % len(names)]
                L = idx[name].length
                if L < 1:
                    continue
                a = 1 + int(r[2] * L)
                b = 1 + int(r[3] * L)
                a, b = min(a, b, L), min(max(a, b), L)
                s.add_row(Fragment(name, a, b, r[4]))
                longest_frag = max(longest_frag, b - a + 1)
                rev = rev or r[4] == -1
        if s.rows:
            asm.add_scaffold(s)
    return asm, longest_frag, longest_gap, rev


def span_bound(b, info_list):
    """File span of b residues plus two lines (a reader may align its reads to
    line starts on either side), for the widest geometry."""
    worst = 0
    for i in info_list:
        rpl = max(1, i.residues_per_line)
        term = max(0, i.max_line_length - i.residues_per_line)
        # (the allowance for a line-aligned reader is itself bounded by the buffer:
        # with lines much longer than the buffer, reading whole lines is holding
        # more than buffer-size residues)
        worst = max(worst, b + (b // rpl + 3) * term + min(2 * i.max_line_length, 2 * b + 64))
    return worst


def one_buffer(case, root, b, world, want_files=True):
    """Index + cache files + stream for one buffer size, with monitors.
    Returns a dict of results; raises Bad on a bound violation."""
    from tola.fasta import index as index_mod
    from tola.fasta.stream import FastaStream

    fa = Path(root) / "g.fa"
    for suffix in (".fai", ".agp"):
        try:
            os.unlink(str(fa) + suffix)
        except FileNotFoundError:
            pass
    world.read_logs.clear()
    # 1. plain indexing
    idx, asm = index_mod.index_fasta_file(fa, b)
    infos = list(idx.values())
    with world.suspend():
        max_line = max((len(ln) for ln in fa.read_bytes().splitlines(keepends=True)), default=0)
    log = world.read_logs.get("g.fa", [])
    for (kind, req, got) in log:
        if got > b + max_line + 2:
            raise Bad(
                "reader_bound_indexing", f"indexing:{kind}",
                f"buffer_size={b}: while indexing, one {kind}({req}) on the FASTA handle returned {got} bytes; "
                f"the bound is buffer-size residues plus one input line ({b}+{max_line})",
            )
    res = {"index": index_canon(idx), "asm": asm_canon(asm)}
    # 2. the cache files written through FastaIndex
    fi = index_mod.FastaIndex(fa, b)
    fi.run_indexing()
    if want_files:
        with world.suspend():
            res["fai_bytes"] = (Path(str(fa) + ".fai")).read_bytes()
            res["agp_bytes"] = (Path(str(fa) + ".agp")).read_bytes()
    if (index_canon(fi.index), asm_canon(fi.assembly)) != (res["index"], res["asm"]):
        raise Bad("differential_index", "run_indexing-vs-index_fasta_file",
                  f"buffer_size={b}: FastaIndex.run_indexing and index_fasta_file disagree")
    # 3. streaming with monitors at the chunk, reader and writer seams
    out_asm, longest_frag, longest_gap, rev = build_assembly(case, idx)
    res["shape"] = (longest_frag, longest_gap, rev)
    sink = Sink()
    line_length = case["knobs"]["line_length"]
    world.read_logs.clear()
    fi2 = index_mod.FastaIndex(fa, b)
    fi2.index = fi.index
    bound = span_bound(b, infos)
    state = {"pos": 0}
    chunks_seen = {"n": 0, "multi": False}

    def reads_since():
        lg = world.read_logs.get("g.fa", [])
        tot = sum(g for (_k, _r, g) in lg[state["pos"]:])
        state["pos"] = len(lg)
        return tot

    orig_seq = fi2.get_sequence_iter
    orig_gap = fi2.get_gap_iter

    def mon_seq(frag):
        got = 0
        n = 0
        prev = None
        reads_since()
        for chunk in orig_seq(frag):
            if prev is not None and prev[0].getvalue() != prev[1]:
                raise Bad("chunk_aliasing", "get_sequence_iter",
                          f"buffer_size={b}: a chunk of {frag} that had already been yielded was modified when the next "
                          f"chunk was produced (was {prev[1][:20]!r}..., now {prev[0].getvalue()[:20]!r}...)")
            prev = (chunk, chunk.getvalue())
            size = len(chunk.getvalue())
            rd = reads_since()
            if size > b:
                raise Bad("chunk_bound", "get_sequence_iter",
                          f"buffer_size={b}: get_sequence_iter({frag}) yielded a chunk of {size} residues")
            if rd > bound:
                raise Bad("reader_bound_streaming", "get_sequence_iter",
                          f"buffer_size={b}: {rd} bytes were read from the FASTA to produce one chunk of {frag} "
                          f"(bound {bound} = file span of {b} residues plus one line)")
            got += size
            n += 1
            yield chunk
            reads_since()
        if got != frag.length:
            raise Bad("chunk_total", "get_sequence_iter",
                      f"buffer_size={b}: chunks of {frag} add up to {got} residues, fragment length {frag.length}")
        chunks_seen["n"] += n
        chunks_seen["multi"] = chunks_seen["multi"] or n > 1

    def mon_gap(gap, *a, **kw):
        got = 0
        n = 0
        for chunk in orig_gap(gap, *a, **kw):
            size = len(chunk.getvalue())
            if size > b:
                raise Bad("chunk_bound", "get_gap_iter",
                          f"buffer_size={b}: get_gap_iter({gap}) yielded a chunk of {size} characters")
            got += size
            n += 1
            yield chunk
        if got != gap.length:
            raise Bad("chunk_total", "get_gap_iter",
                      f"buffer_size={b}: gap chunks add up to {got}, gap length {gap.length}")
        chunks_seen["multi"] = chunks_seen["multi"] or n > 1

    fi2.get_sequence_iter = mon_seq
    fi2.get_gap_iter = mon_gap
    FastaStream(sink, fi2, line_length=line_length).write_assembly(out_asm)
    # one chunk with its line breaks, plus at most one chunk's worth of carried-over
    # line start; a whole output line is NOT allowed when lines are longer than the buffer
    wbound = b + -(-b // line_length) + 1 + min(line_length, b)
    # writes larger than the bound are only legal for header lines (">" + name + newline)
    names = {(">" + s.name + "\n").encode() for s in out_asm.scaffolds}
    pos = 0
    data = bytes(sink.data)
    for sz in sink.sizes:
        piece = data[pos:pos + sz]
        pos += sz
        if sz > wbound and piece not in names:
            raise Bad("writer_bound", "FastaStream.write",
                      f"buffer_size={b}: one write of {sz} bytes reached the output stream (bound {wbound}: one chunk with its line breaks and a carried-over line start)")
    # every user-level read while streaming
    for (kind, req, got) in world.read_logs.get("g.fa", []):
        if got > bound:
            raise Bad("reader_bound_streaming", f"streaming:{kind}",
                      f"buffer_size={b}: {kind}({req}) returned {got} bytes while streaming (bound {bound})")
    res["stream"] = data
    res["multi"] = chunks_seen["multi"]
    # the same index object streams again, this time with another gap character:
    # whatever the first pass left behind in it must not show
    sink2 = Sink()
    FastaStream(sink2, fi2, line_length=line_length, gap_character=b"n").write_assembly(out_asm)
    res["stream_again"] = bytes(sink2.data)
    # two fragment iterators of the same index consumed alternately (each chunk is
    # fetched on demand, so whose turn it is must not matter)
    frs = [r for sc in out_asm.scaffolds for r in sc.rows if not hasattr(r, "gap_type")][:2]
    if frs:
        if len(frs) == 1:
            frs = frs * 2
        its = [orig_seq(f) for f in frs]
        got = [bytearray(), bytearray()]
        alive = [True, True]
        while any(alive):
            for k in (0, 1):
                if alive[k]:
                    try:
                        got[k] += next(its[k]).getvalue()
                    except StopIteration:
                        alive[k] = False
        res["interleaved"] = [bytes(got[0]), bytes(got[1])]
    else:
        res["interleaved"] = []
    fh = fi2.__dict__.get("fasta_fileandle")
    if fh is not None:
        fh.close()
    return res


def shared_index_streams(case, root, sizes):
    """ONE FastaIndex object whose buffer_size attribute is set to each size in
    turn, streaming the case's assembly each time: what an earlier size left
    behind in the object must not show."""
    from tola.fasta import index as index_mod
    from tola.fasta.stream import FastaStream

    fa = Path(root) / "g.fa"
    idx, _asm = index_mod.index_fasta_file(fa, sizes[0])
    fi = index_mod.FastaIndex(fa, sizes[0])
    fi.index = idx
    out_asm, _lf, _lg, _rev = build_assembly(case, idx)
    outs = []
    try:
        for b in sizes:
            fi.buffer_size = b
            sink = Sink()
            FastaStream(sink, fi, line_length=case["knobs"]["line_length"]).write_assembly(out_asm)
            outs.append(bytes(sink.data))
    finally:
        fh = fi.__dict__.get("fasta_fileandle")
        if fh is not None:
            fh.close()
    return outs


def execute_case(case, run_seed, tier, tag=""):
    root = sandbox.make(ID, tier, run_seed, tag)
    violations = []
    classes = set()
    evals = 0
    k = case["knobs"]
    world = World(
        root, read_buf=k["read_buf"], io_buf=8192,
        short_reads=random.Random(k["short_seed"]) if k["short_reads"] else None,
        record_reads=True,
    )
    fa = Path(root) / "g.fa"
    blob = gen.render_fasta(case["fasta"])
    fa.write_bytes(blob)
    discarded = 0
    try:
        with world:
            nullh = logging.NullHandler()
            logging.getLogger().addHandler(nullh)
            gc_was = gc.isenabled()
            try:
                ref = None
                ref_b = None
                order = list(case["bufs"]) if case.get("ordered") else sorted(case["bufs"], reverse=True)
                if len(order) > 1:
                    order.append(order[0])  # ... and the first one once more, after all the others
                for pos, b in enumerate(order):
                    try:
                        res = one_buffer(case, root, b, world)
                    except Bad as bad:
                        violations.append({"oracle": bad.oracle, "site": bad.site, "detail": bad.detail, "buf": b, "pos": pos})
                        break
                    except Exception as e:  # noqa: BLE001
                        if ref is None:
                            if b != max(order):
                                # is it the input, or this buffer size?
                                try:
                                    one_buffer(case, root, max(order), world)
                                except Bad:
                                    pass
                                except Exception:  # noqa: BLE001
                                    discarded = 1
                                    break
                                violations.append({
                                    "oracle": "differential_exception", "site": type(e).__name__,
                                    "detail": f"buffer_size={b} raised {e!r} although buffer_size={max(order)} succeeds", "buf": b, "pos": pos,
                                })
                                break
                            discarded = 1  # the reference (largest buffer) rejects this input: not a workload
                            break
                        violations.append({
                            "oracle": "differential_exception", "site": type(e).__name__,
                            "detail": f"buffer_size={b} raised {e!r} although buffer_size={ref_b} succeeded", "buf": b, "pos": pos,
                        })
                        break
                    evals += 1
                    if ref is None:
                        ref, ref_b = res, b
                        continue
                    for key, what in (("index", "index"), ("asm", "derived assembly"), ("fai_bytes", ".fai bytes"),
                                      ("agp_bytes", ".agp bytes"), ("stream", "streamed FASTA bytes"),
                                      ("stream_again", "bytes of a second stream from the same index object (gap character n)"),
                                      ("interleaved", "residues of two fragments whose chunk iterators were consumed alternately")):
                        if res[key] != ref[key]:
                            violations.append({
                                "oracle": "differential_" + key, "site": what,
                                "detail": f"{what} differ between buffer_size={b} and buffer_size={ref_b}:\n"
                                          f" b={b}: {_short(res[key])}\n b={ref_b}: {_short(ref[key])}"
                                          + (f"\n (buffer sizes used in this process, in order: {order[:pos + 1]})" if b == ref_b or case.get("ordered") else ""),
                                "buf": b, "pos": pos,
                            })
                            break
                    if violations:
                        break
                    # reach classification
                    lf, lg, rev = res["shape"]
                    widths = [r["width"] for r in case["fasta"]["records"]]
                    lens = [len(r["seq"]) for r in case["fasta"]["records"]]
                    if b < max(lens):
                        cmpf = lambda x, y: "<" if x < y else ("=" if x == y else ">")  # noqa: E731
                        classes.add(
                            f"b{cmpf(b, min(widths))}w b{cmpf(b, lf)}frag b{cmpf(b, lg)}gap rev={int(rev)} "
                            f"multi={int(res['multi'])} exact={int(any(L % b == 0 for L in lens))} rb{cmpf(k['read_buf'], b)}b"
                        )
                if not violations and ref is not None and not discarded and len(order) > 1:
                    # the same sizes, in the same order, on one shared index object
                    try:
                        outs = shared_index_streams(case, root, order)
                    except Exception as e:  # noqa: BLE001
                        outs = None
                        violations.append({
                            "oracle": "differential_exception", "site": type(e).__name__,
                            "detail": f"streaming from one index object with buffer_size set to {order} in turn raised {e!r}",
                            "buf": order[-1], "pos": len(order) - 1,
                        })
                    evals += 1
                    for pos, (b, got) in enumerate(zip(order, outs or [])):
                        if got != ref["stream"]:
                            violations.append({
                                "oracle": "differential_stream_shared_index", "site": "streamed FASTA bytes (one index object, buffer_size changed)",
                                "detail": f"one FastaIndex object, buffer_size set to {order[:pos + 1]} in turn: the stream at buffer_size={b} "
                                          f"differs from the reference\n got: {_short(got)}\n ref: {_short(ref['stream'])}",
                                "buf": b, "pos": pos, "needs_order": True,
                            })
                            break
            finally:
                if gc_was:
                    gc.enable()
                logging.getLogger().removeHandler(nullh)
        out = {
            "digest": digest_of([world.trace, [v["oracle"] for v in violations]]),
            "events": world.events,
            "sim_seconds": 0,
            "faults": dict(world.faults_fired),
            "probes": dict(world.probes),
            "classes": sorted(classes),
            "evals": evals,
            "discarded": discarded,
            "violations": [
                {
                    "oracle": v["oracle"], "site": v["site"], "detail": v["detail"],
                    "replay": {"property": ID, "kind": "small", "case": _replay_case(case, v),
                               "expect": {"oracle": v["oracle"]}},
                }
                for v in violations
            ],
        }
        return out
    finally:
        sandbox.remove(root)


def _replay_case(case, v):
    """The buffer sizes a replay needs: reference and failing size - or, where
    the order of use may matter, everything used up to the failing one."""
    order = list(case["bufs"]) if case.get("ordered") else sorted(case["bufs"], reverse=True)
    if len(order) > 1:
        order.append(order[0])
    pos = v.get("pos", len(order) - 1)
    if case.get("ordered") or v.get("needs_order") or (pos == len(order) - 1 and len(order) > 1):
        used = order[:pos + 1]
        if len(used) > 1 and used[-1] == used[0]:
            used = used[:-1]  # the repeat of the first is appended again at run time
        if max(case["bufs"]) not in used:
            used.append(max(case["bufs"]))  # (what a first size that raises is compared with)
        return dict(case, bufs=used, ordered=True)
    return dict(case, bufs=sorted({v["buf"], max(case["bufs"])}))


def _short(x):
    s = repr(x)
    return s if len(s) < 500 else s[:250] + " ... " + s[-250:]


# ---------------------------------------------------------------------------
# long cases: the allocator monitor
# ---------------------------------------------------------------------------


def _long_fasta(path, L, width=60, narrow_first=False, void_record=False):
    # not periodic in any chunk size that is used: a random unit of prime length
    # (identical chunks would let a cache or memo hide what it retains)
    r = random.Random(L * 31 + width)
    unit = bytes(r.choice(b"ACGT") for _ in range(9973))
    seq = (unit * (L // len(unit) + 1))[:L]
    with open(path, "wb") as fh:
        if narrow_first:
            # a first record with one residue per line: anything the indexer
            # calibrates on the first record is wrong for the next one
            fh.write(b">narrow\n" + b"A\nC\nG\nT\n" * 30)
        fh.write(b">chr1 long\n")
        out = bytearray()
        for j in range(0, L, width):
            out += seq[j:j + width] + b"\n"
            if len(out) > 1 << 20:
                fh.write(out)
                out.clear()
        fh.write(out)
        if void_record:
            fh.write(b">void no residues\n")  # cannot be stored in the .agp cache
        fh.write(b">tail\nACGTNNACGT\n")


def measure_cli(bprime, factor, root):
    """The whole pretext-to-asm CLI writing FASTA from a FASTA input whose single
    record is factor*bprime residues long (identity map), with the buffer
    defaults set to bprime: peak traced memory of the run."""
    from tola.assembly.scripts import pretext_to_asm
    from tola.fasta import index as index_mod

    from .. import clirun

    L = bprime * factor
    d = Path(root) / f"cli{L}"
    d.mkdir()
    fa = d / "in.fa"
    _long_fasta(fa, L)
    bpt = L / 1000.0
    (d / "map.agp").write_text(
        "##agp-version\t2.1\n# DESCRIPTION: Generated by PretextView Version 0.2.5\n"
        f"# HiC MAP RESOLUTION: {bpt:.6f} bp/texel\n"
        f"Scaffold_1\t1\t{L}\t1\tW\tchr1\t1\t{L}\t-\tPainted\n"
        "Scaffold_2\t1\t10\t1\tW\ttail\t1\t10\t+\n"
    )
    d1 = inspect.unwrap(index_mod.FastaIndex.__init__).__defaults__
    d2 = inspect.unwrap(index_mod.index_fasta_file).__defaults__
    inspect.unwrap(index_mod.FastaIndex.__init__).__defaults__ = (bprime,)
    inspect.unwrap(index_mod.index_fasta_file).__defaults__ = (bprime,)
    gc.collect()
    tracemalloc.start()
    try:
        base = tracemalloc.get_traced_memory()[0]
        tracemalloc.reset_peak()
        r = clirun.invoke(pretext_to_asm.cli, ["-a", fa, "-p", d / "map.agp", "-o", d / "out.fa", "--no-write-log"])
        peak = tracemalloc.get_traced_memory()[1] - base
    finally:
        tracemalloc.stop()
        inspect.unwrap(index_mod.FastaIndex.__init__).__defaults__ = d1
        inspect.unwrap(index_mod.index_fasta_file).__defaults__ = d2
        clirun.end_of_process()
    if r.code != 0:
        raise Bad("differential_exception", "cli_fasta", f"pretext-to-asm failed on the long identity workload: {r.stderr[-400:]}")
    out = d / "out.1.primary.curated.fa"
    if not out.exists() or out.stat().st_size < L:
        raise Bad("differential_stream", "cli_fasta", "pretext-to-asm wrote no complete FASTA for the long identity workload")
    return peak


def measure_long(bprime, factor, what, root):
    if what == "cli_fasta":
        return measure_cli(bprime, factor, root)
    """Peak traced memory (bytes above the baseline) of `what` on a sequence /
    fragment / gap of factor*bprime residues with buffer bprime."""
    from tola.assembly.assembly import Assembly
    from tola.assembly.fragment import Fragment
    from tola.assembly.gap import Gap
    from tola.assembly.scaffold import Scaffold
    from tola.fasta import index as index_mod
    from tola.fasta.stream import FastaStream

    L = bprime * factor
    mixed = what == "index_mixed_width"
    void = what in ("autoload_warm", "autoload_torn")
    oneline = what == "stream_oneline_input"
    fa = Path(root) / f"long{L}{'m' if mixed else ''}{'v' if void else ''}{'u' if oneline else ''}.fa"
    if not fa.exists():
        # (oneline: the whole record on one input line, as unwrapped FASTA files have it)
        _long_fasta(fa, L, width=L if oneline else (250 if mixed else 60), narrow_first=mixed, void_record=void)
    idx = None
    if void:
        # build the cache (cold), make sure it counts as newer, then measure the warm load
        index_mod.FastaIndex(fa, bprime).auto_load()
        st = os.stat(fa)
        os.utime(fa, ns=(st.st_mtime_ns - 5_000_000_000, st.st_mtime_ns - 5_000_000_000))
        if what == "autoload_torn":
            # what an interrupted writer of an older version may have left: an empty
            # .fai that is newer than the FASTA (the loader must cope within its budget)
            open(str(fa) + ".fai", "w").close()
    elif not what.startswith("index"):
        idx, _asm = index_mod.index_fasta_file(fa, 250_000)
    gc.collect()
    tracemalloc.start()
    try:
        base = tracemalloc.get_traced_memory()[0]
        tracemalloc.reset_peak()
        if void:
            fi = index_mod.FastaIndex(fa, bprime)
            try:
                fi.auto_load()
            except Exception:  # noqa: BLE001 - failing loudly on a torn cache is fine
                if what != "autoload_torn":
                    raise
                fi = None
            if fi is not None and ("void" not in fi.index or len(fi.assembly.scaffolds) != 3):
                raise Bad("differential_index", "autoload_warm", "warm auto_load lost the record without residues")
        elif what.startswith("index"):
            index_mod.index_fasta_file(fa, bprime)
        else:
            fi = index_mod.FastaIndex(fa, bprime)
            fi.index = idx
            sc = Scaffold("s")
            if what in ("stream_fwd", "stream_unwrapped", "stream_oneline_input"):
                sc.add_row(Fragment("chr1", 1, L, 1))
            elif what == "stream_rev":
                sc.add_row(Fragment("chr1", 1, L, -1))
            else:
                sc.add_row(Fragment("tail", 1, 4, 1))
                sc.add_row(Gap(L, "scaffold"))
                sc.add_row(Fragment("tail", 7, 10, 1))
            asm = Assembly("a")
            asm.add_scaffold(sc)
            FastaStream(Sink(keep=False), fi, line_length=(10 ** 9 if what == "stream_unwrapped" else 60)).write_assembly(asm)
            fh = fi.__dict__.get("fasta_fileandle")
            if fh is not None:
                fh.close()
        peak = tracemalloc.get_traced_memory()[1] - base
    finally:
        tracemalloc.stop()
    return peak


def many_records_case(rng, run_seed, tier):
    """Scale outlier in the other direction: well over a thousand short
    records, mixed line widths, LF/CRLF; index, derived assembly and a stream
    of every record (both strands) compared across buffer sizes."""
    import hashlib

    from tola.assembly.assembly import Assembly
    from tola.assembly.fragment import Fragment
    from tola.assembly.scaffold import Scaffold
    from tola.fasta import index as index_mod
    from tola.fasta.stream import FastaStream

    root = sandbox.make(ID, tier, run_seed, "M")
    try:
        fa = Path(root) / "many.fa"
        n = rng.randint(1100, 1600)
        with open(fa, "w", newline="") as fh:
            for k in range(n):
                L = rng.choice([1, 2, 5, 17, 50, 61, 120])
                w = rng.choice([1, 7, 60, 200])
                nl = "\r\n" if rng.random() < 0.1 else "\n"
                seq = "".join(rng.choice("ACGTN") for _ in range(L))
                fh.write(f">r{k}{nl}")
                for j in range(0, L, w):
                    fh.write(seq[j:j + w] + nl)
        ref = None
        bufs = [250_000, 64, 7, 1]
        for b in bufs:
            idx, asm = index_mod.index_fasta_file(fa, b)
            fi = index_mod.FastaIndex(fa, b)
            fi.index = idx
            out_asm = Assembly("a")
            for k, (name, info) in enumerate(idx.items()):
                if info.length:
                    sc = Scaffold("o" + name)
                    sc.add_row(Fragment(name, 1, info.length, 1 if k % 2 else -1))
                    out_asm.add_scaffold(sc)
            h = hashlib.blake2b(digest_size=16)

            class H(_OutBase):
                def write(self, d):
                    h.update(d)

            FastaStream(H(), fi).write_assembly(out_asm)
            fh_ = fi.__dict__.get("fasta_fileandle")
            if fh_ is not None:
                fh_.close()
            got = (index_canon(idx), asm_canon(asm), h.hexdigest())
            if ref is None:
                ref = (b, got)
            elif got != ref[1]:
                what = "index" if got[0] != ref[1][0] else ("derived assembly" if got[1] != ref[1][1] else "streamed bytes")
                return {
                    "oracle": "differential_large", "site": what + " (many records)",
                    "detail": f"{n} records: {what} differ between buffer_size={b} and buffer_size={ref[0]}",
                    "replay": {"property": ID, "kind": "large", "seed": run_seed, "which": 1, "expect": {"oracle": "differential_large"}},
                }, len(bufs)
        return None, len(bufs)
    finally:
        sandbox.remove(root)


def large_case(run_seed, tier, which):
    """Scale outlier for the differential oracle: a record of several hundred
    kilobases indexed and streamed (forward, reverse, gap) with buffers around
    the sizes at which helpers switch strategy (64 KiB multiples, the default).
    Only digests are compared, so nothing large is kept."""
    import hashlib

    from tola.assembly.assembly import Assembly
    from tola.assembly.fragment import Fragment
    from tola.assembly.gap import Gap
    from tola.assembly.scaffold import Scaffold
    from tola.fasta import index as index_mod
    from tola.fasta.stream import FastaStream

    rng = random.Random(run_seed)
    if which % 3 == 1:
        return many_records_case(rng, run_seed, tier)
    L = rng.choice([262144, 300000, 393216, 524288 + rng.randint(0, 5000)])
    root = sandbox.make(ID, tier, run_seed, "G")
    bufs = sorted({4096, 65536, 65537, 131072, 196608, 250_000, 262144, rng.choice([99_991, 131071, 200_000])}, reverse=True)
    try:
        fa = Path(root) / "big.fa"
        # (also lines wider than 64 KiB, and the whole record on one line)
        width = rng.choice([70001, 131073, L]) if which % 3 == 2 else rng.choice([60, 80, 100])
        # not periodic: a random prefix, N runs inside
        unit = "".join(rng.choice("ACGT") for _ in range(9973))
        seq = (unit * (L // len(unit) + 1))[:L]
        cut = rng.randrange(1000, L - 70000)
        seq = seq[:cut] + "N" * 66000 + seq[cut + 66000:]
        with open(fa, "w") as fh:
            fh.write(">big\n")
            for j in range(0, L, width):
                fh.write(seq[j:j + width] + "\n")
            fh.write(">tail\nACGTNNACGT\n")
        ref = None
        for b in bufs:
            idx, asm = index_mod.index_fasta_file(fa, b)
            fi = index_mod.FastaIndex(fa, b)
            fi.index = idx
            sc = Scaffold("s")
            a, e = 1 + L // 7, L - L // 9
            sc.add_row(Fragment("big", a, e, -1))
            sc.add_row(Gap(131072 + 17, "scaffold"))
            sc.add_row(Fragment("big", 1, L, 1))
            out_asm = Assembly("a")
            out_asm.add_scaffold(sc)

            class H(_OutBase):
                def __init__(self):
                    self.h = hashlib.blake2b(digest_size=16)
                    self.n = 0

                def write(self, d):
                    self.h.update(d)
                    self.n += len(d)

            h = H()
            FastaStream(h, fi).write_assembly(out_asm)
            fh_ = fi.__dict__.get("fasta_fileandle")
            if fh_ is not None:
                fh_.close()
            got = (index_canon(idx), asm_canon(asm), h.n, h.h.hexdigest())
            if ref is None:
                ref = (b, got)
            elif got != ref[1]:
                what = "index" if got[0] != ref[1][0] else ("derived assembly" if got[1] != ref[1][1] else "streamed bytes")
                return {
                    "oracle": "differential_large", "site": what,
                    "detail": f"{L}-residue record: {what} differ between buffer_size={b} and buffer_size={ref[0]} "
                              f"(streamed {got[2]} vs {ref[1][2]} bytes)",
                    "replay": {"property": ID, "kind": "large", "seed": run_seed, "expect": {"oracle": "differential_large"}},
                }, len(bufs)
        return None, len(bufs)
    finally:
        sandbox.remove(root)


CASES_PER_RUN = 5

LONG_WHATS = ["index", "stream_fwd", "stream_rev", "stream_gap", "index_mixed_width", "autoload_warm", "autoload_torn", "cli_fasta", "stream_unwrapped", "stream_oneline_input"]


def long_case(bprime, what, run_seed, tier):
    root = sandbox.make(ID, tier, run_seed, "L")
    try:
        if what == "cli_fasta":
            measure_long(bprime, 4, what, root)  # warm-up: lazily imported modules, first-use tables
        small = measure_long(bprime, 40, what, root)
        big = measure_long(bprime, 400, what, root)
    finally:
        sandbox.remove(root)
    abs_bound = 8 * bprime + 2 * 251 + 64 * 1024
    growth_bound = 4 * bprime + 32 * 1024
    if what == "cli_fasta":
        # a whole CLI run has a constant footprint of its own (option parsing,
        # logging, statistics): only growth with the sequence length is judged
        abs_bound = max(abs_bound, small + growth_bound)
    v = None
    if big > abs_bound or (big - small) > growth_bound:
        v = {
            "oracle": "allocator_bound", "site": what,
            "detail": f"{what} with buffer {bprime}: peak traced memory {small} B on {40 * bprime} residues and {big} B on "
                      f"{400 * bprime} residues (absolute bound {abs_bound}, growth bound {growth_bound})",
            "replay": {"property": ID, "kind": "long", "bprime": bprime, "what": what, "expect": {"oracle": "allocator_bound"}},
        }
    return v, {"what": what, "bprime": bprime, "peak_40x": small, "peak_400x": big}


# ---------------------------------------------------------------------------
# runner entry points
# ---------------------------------------------------------------------------


def run_one(run_seed, i, tier):
    rng = random.Random(run_seed)
    # the first few run indices of a batch are the dedicated long cases
    nlong = len(LONG_WHATS) * (1 if tier == "quick" else 2)
    if i < nlong:
        what = LONG_WHATS[i % len(LONG_WHATS)]
        bprime = 1000 if i < len(LONG_WHATS) else 4096
        v, m = long_case(bprime, what, run_seed, tier)
        return {
            "digest": digest_of([what, bprime, v is None]),
            "evals": 2, "events": 0, "classes": [f"long:{what}:{bprime}"],
            "violations": [v] if v else [], "probes": {"long_cases": 1}, "faults": {},
            "extra": {"allocator_measurements": [m]},
            "sample": m if i == 0 else None,
        }
    nlarge = 3 if tier == "quick" else 24
    if i < nlong + nlarge:
        v, n = large_case(run_seed, tier, i - nlong)
        return {
            "digest": digest_of(["large", v is None]), "evals": n, "events": 0, "classes": ["large"],
            "violations": [v] if v else [], "probes": {"large_differential_cases": 1}, "faults": {},
        }
    # several small workloads per run (a run is one forked process)
    total = None
    for k in range(CASES_PER_RUN):
        case = gen_case(rng)
        res = execute_case(case, (run_seed + k) & 0xFFFFFFFFFFFF, tier)
        if total is None:
            total = res
            if i in (nlong + nlarge, nlong + nlarge + 1):
                total["sample"] = {
                    "fasta": gen.render_fasta(case["fasta"]).decode("ascii", "replace")[:300],
                    "assembly": case["scaffolds"], "buffer_sizes": case["bufs"], "knobs": case["knobs"],
                }
        else:
            total["digest"] = digest_of([total["digest"], res["digest"]])
            for key in ("events", "evals", "discarded"):
                total[key] += res[key]
            for key in ("faults", "probes"):
                for a, b in res[key].items():
                    total[key][a] = total[key].get(a, 0) + b
            total["classes"] = sorted(set(total["classes"]) | set(res["classes"]))
            total["violations"].extend(res["violations"])
        if total["violations"]:
            break
    return total


def replay(obj):
    if obj.get("kind") == "long":
        v, m = long_case(obj["bprime"], obj["what"], 0xC13, "quick")
        return {"digest": digest_of(m["what"]), "violations": [v] if v else []}
    if obj.get("kind") == "large":
        v, n = large_case(obj["seed"], "quick", obj.get("which", 0))
        return {"digest": digest_of(["large", v is None]), "violations": [v] if v else []}
    return execute_case(obj["case"], 0xC13, "quick", tag="r")


def shrink_candidates(obj):
    if obj.get("kind") in ("long", "large"):
        return
    case = obj["case"]
    if case.get("ordered") and len(case["bufs"]) > 2:
        for bi in range(len(case["bufs"])):
            c = copy.deepcopy(obj)
            del c["case"]["bufs"][bi]
            yield c
    for si, sc in enumerate(case["scaffolds"]):
        if len(case["scaffolds"]) > 1:
            c = copy.deepcopy(obj)
            del c["case"]["scaffolds"][si]
            yield c
        for ri in range(len(sc["rows"])):
            if len(sc["rows"]) > 1:
                c = copy.deepcopy(obj)
                del c["case"]["scaffolds"][si]["rows"][ri]
                yield c
    recs = case["fasta"]["records"]
    for ri, rec in enumerate(recs):
        if len(recs) > 1:
            c = copy.deepcopy(obj)
            del c["case"]["fasta"]["records"][ri]
            yield c
        if len(rec["seq"]) > 1:
            c = copy.deepcopy(obj)
            c["case"]["fasta"]["records"][ri]["seq"] = rec["seq"][: len(rec["seq"]) // 2]
            yield c
            c = copy.deepcopy(obj)
            c["case"]["fasta"]["records"][ri]["seq"] = rec["seq"][len(rec["seq"]) // 2:]
            yield c
        if rec["crlf"] or rec["desc"]:
            c = copy.deepcopy(obj)
            c["case"]["fasta"]["records"][ri]["crlf"] = False
            c["case"]["fasta"]["records"][ri]["desc"] = ""
            yield c
    for key, dv in (("read_buf", 8192), ("short_reads", False), ("line_length", 60)):
        if case["knobs"][key] != dv:
            c = copy.deepcopy(obj)
            c["case"]["knobs"][key] = dv
            yield c


def evidence_extra(agg):
    return {
        "fault_kinds_note": "short_raw_read is the only fault that applies: reads below the buffered FASTA reader are shortened; "
                            "crashes and write errors play no part in this property",
    }
