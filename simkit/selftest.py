"""Proving the harness itself: determinism and sensitivity (DESIGN.md 3.6)."""

from __future__ import annotations

import glob
import json
import os
import re
import shutil
import subprocess
import sys
import tempfile
import time

from . import runner

VERIF = runner.VERIF
CHECK = os.path.join(VERIF, "check")
PROPS = ["C13", "C15", "C16", "C17", "C18"]
N_RUNS = {"C13": 300, "C15": 300, "C16": 24, "C17": 24, "C18": 300}


def _digests(prop, runs, workers, hashseed, extra_env=None):
    fd, path = tempfile.mkstemp(prefix=f"digests-{prop}-", suffix=".json")
    os.close(fd)
    env = dict(os.environ)
    env["VERIF_PYTHONHASHSEED"] = str(hashseed)
    env.update(extra_env or {})
    p = subprocess.run(
        [CHECK, prop, "--runs", str(runs), "--workers", str(workers), "--no-evidence", "--no-shrink", "--digests", path],
        env=env, capture_output=True, text=True, timeout=3600, check=False,
    )
    try:
        with open(path) as fh:
            d = json.load(fh)
    except Exception:  # noqa: BLE001
        d = None
    os.unlink(path)
    return p.returncode, d, p.stdout[-400:] + p.stderr[-400:]


def determinism(args):
    """Every property: the same run seeds executed (a) with 16 workers,
    (b) with 1 worker, (c) in fresh interpreters under two other hash seeds;
    the per-run trace digests must agree."""
    bad = 0
    report = {}
    props = PROPS
    for prop in props:
        n = args.runs or N_RUNS[prop]
        t0 = time.time()
        variants = [("w16/h0", 16, 0), ("w1/h0", 1, 0), ("w16/h1", 16, 1), ("w5/h987654", 5, 987654), ("w16/h0 again", 16, 0)]
        base = None
        res = {}
        for label, workers, hs in variants:
            rc, d, tail = _digests(prop, n, workers, hs)
            if d is None or rc not in (0, 1):
                print(f"[selftest] {prop} {label}: check failed rc={rc}\n{tail}")
                bad += 1
                continue
            if base is None:
                base = d
                res[label] = "reference"
                continue
            diff = [i for i, (a, b) in enumerate(zip(base, d)) if a != b]
            res[label] = f"{len(diff)} of {len(d)} digests differ" + (f" (first: run {diff[0]})" if diff else "")
            if diff:
                bad += 1
        report[prop] = res
        print(f"[selftest] {prop}: {res}  ({time.time() - t0:.1f}s)", flush=True)
    out = os.path.join(VERIF, "evidence", "selftest-determinism.json")
    with open(out, "w") as fh:
        json.dump({"runs_per_property": N_RUNS if not args.runs else args.runs, "result": report, "mismatching_variants": bad}, fh, indent=1)
        fh.write("\n")
    print("[selftest] determinism:", "OK" if not bad else f"{bad} PROBLEM(S)")
    return 0 if not bad else 2


_NS_COUNTER = [0]


def _run_check(argv, env, timeout=3600):
    """One check invocation in its own session and its own sandbox namespace;
    afterwards whatever it left running (workers of a batch that was stopped at
    its first violation) is killed and the namespace removed."""
    import signal
    import types

    from . import sandbox

    _NS_COUNTER[0] += 1
    ns = f"s{(os.getpid() * 1000 + _NS_COUNTER[0]) % 10_000_000:07d}"  # same width as the default p<pid>
    env = dict(env, VERIF_SANDBOX_NS=ns)
    p = subprocess.Popen(argv, env=env, stdout=subprocess.PIPE, stderr=subprocess.PIPE, text=True, start_new_session=True)
    try:
        out, err = p.communicate(timeout=timeout)
    except subprocess.TimeoutExpired:
        out, err = "", "timeout"
    try:
        os.killpg(p.pid, signal.SIGKILL)
    except (ProcessLookupError, PermissionError):
        pass
    try:
        p.wait(timeout=30)
    except Exception:  # noqa: BLE001
        pass
    base = os.path.dirname(sandbox.base()) if os.environ.get("VERIF_SANDBOX_NS") else sandbox.base()
    shutil.rmtree(os.path.join(base, ns), ignore_errors=True)
    return types.SimpleNamespace(returncode=p.returncode if p.returncode is not None else -9, stdout=out, stderr=err)


def _scratch_repo(patch):
    """A copy of /repo's working tree (src + tests/data) with one seeded patch applied."""
    from .repo import REPO

    base = "/dev/shm/vsim-mut" if os.path.isdir("/dev/shm") else os.path.join(tempfile.gettempdir(), "vsim-mut")
    os.makedirs(base, exist_ok=True)
    d = tempfile.mkdtemp(prefix="repo-", dir=base)
    shutil.copytree(os.path.join(REPO, "src"), os.path.join(d, "src"))
    os.makedirs(os.path.join(d, "tests"))
    os.symlink(os.path.join(REPO, "tests", "data"), os.path.join(d, "tests", "data"))
    p = subprocess.run(["patch", "-p1", "-s", "-d", d, "-i", patch], capture_output=True, text=True, check=False)
    if p.returncode != 0:
        shutil.rmtree(d, ignore_errors=True)
        raise RuntimeError(f"patch failed: {p.stdout}{p.stderr}")
    return d


def sensitivity(args):
    """Every seeded change under /verif/seeded must make the check(s) named in
    its meta.json exit 1 within the quick budget (on a scratch copy; /repo is
    never touched)."""
    metas = sorted(glob.glob(os.path.join(VERIF, "seeded", "*", "meta.json")))
    missed, rows, unreplayed = [], [], []
    try:
        commit = subprocess.run(["git", "-C", VERIF, "rev-parse", "--short", "HEAD"], capture_output=True, text=True, check=False).stdout.strip()
        if subprocess.run(["git", "-C", VERIF, "status", "--porcelain", "--", "simkit", "check"], capture_output=True, text=True, check=False).stdout.strip():
            commit += "+uncommitted"
    except OSError:
        commit = "?"
    for mpath in metas:
        with open(mpath) as fh:
            meta = json.load(fh)
        sid = os.path.basename(os.path.dirname(mpath))
        # --replay doubles as a filter here: "<regex on the id>[@<check>]"
        id_re, _, only_chk = (args.replay or "").partition("@")
        if id_re and not re.search(id_re, sid):
            continue
        if only_chk and only_chk not in meta.get("caught_by", []):
            continue
        patch = os.path.join(os.path.dirname(mpath), "patch.diff")
        try:
            d = _scratch_repo(patch)
        except RuntimeError as e:
            print(f"[sensitivity] {sid}: {e}")
            missed.append(sid)
            continue
        try:
            seeds = [x for x in (args.seeds or "").split(",") if x] or [os.environ.get("VERIF_SEED") or "1"]
            for chk in meta.get("caught_by", []):
                if only_chk and chk != only_chk:
                    continue
                for seed in seeds:
                    env = dict(os.environ)
                    env["VERIF_REPO"] = d
                    env["VERIF_REPO_SRC"] = os.path.join(d, "src")
                    env["VERIF_SEED"] = str(seed)
                    env["VERIF_REPLAY_DIR"] = os.path.join(d, "replays")  # private: concurrent runs never see each other's files
                    env["VERIF_STOP_AT_FIRST"] = "1"  # the first violation in index order is what gets reported anyway
                    t0 = time.time()
                    p = _run_check([CHECK, chk, "--tier", "quick", "--no-evidence", "--no-shrink"], env)
                    hit = p.returncode == 1 and "VIOLATION property=" in p.stdout
                    oracle = ""
                    for ln in p.stdout.splitlines():
                        if "violation: oracle=" in ln:
                            oracle = ln.split("violation: ", 1)[1]
                            break
                    verified = None
                    for ln in p.stdout.splitlines():
                        if ln.startswith("VIOLATION property=") and "replay=" in ln:
                            try:
                                with open(ln.split("replay=", 1)[1].strip()) as fh:
                                    verified = json.load(fh).get("replay_verified_in_fresh_interpreter")
                            except Exception:  # noqa: BLE001
                                verified = "unreadable"
                    rows.append((sid, chk, hit, oracle, round(time.time() - t0, 1), int(seed), verified, commit))
                    if hit and verified is not True:
                        print(f"[sensitivity] {sid} vs {chk}: replay file did NOT reproduce in a fresh interpreter ({verified})", flush=True)
                        unreplayed.append(f"{sid}/{chk}/seed{seed}")
                    print(f"[sensitivity] {sid} vs {chk} seed={seed}: {'caught' if hit else 'MISSED (rc=%d)' % p.returncode} {oracle} ({time.time() - t0:.1f}s)", flush=True)
                    if not hit:
                        missed.append(f"{sid}/{chk}/seed{seed}")
        finally:
            shutil.rmtree(d, ignore_errors=True)
    out = os.path.join(VERIF, "evidence", "selftest-sensitivity.json")
    keys = ("seeded", "check", "caught", "oracle", "seconds", "verif_seed", "replay_reproduced_in_fresh_interpreter", "verif_commit")
    new_rows = [dict(zip(keys, r)) for r in rows]
    if args.replay and os.path.exists(out):
        # a filtered run replaces the rows of the (change, check, seed) triples it re-ran and keeps the others
        with open(out) as fh:
            old = json.load(fh)
        redone = {(r["seeded"], r["check"], r["verif_seed"]) for r in new_rows}
        kept = [r for r in old.get("rows", []) if (r["seeded"], r["check"], r["verif_seed"]) not in redone]
        new_rows = sorted(kept + new_rows, key=lambda r: (r["seeded"], r["check"], r["verif_seed"]))
        tag = lambda r: f"{r['seeded']}/{r['check']}/seed{r['verif_seed']}"  # noqa: E731
        all_missed = [tag(r) for r in new_rows if not r["caught"]]
        all_unreplayed = [tag(r) for r in new_rows if r["caught"] and r.get("replay_reproduced_in_fresh_interpreter") is not True]
    else:
        all_missed, all_unreplayed = missed, unreplayed
    with open(out, "w") as fh:
        json.dump({"rows": new_rows, "missed": all_missed, "replay_not_reproduced": all_unreplayed}, fh, indent=1)
        fh.write("\n")
    print(f"[sensitivity] {len(rows) - len(missed)} of {len(rows)} caught; missed: {missed}; replay files not reproduced: {unreplayed}")
    return 0 if not (missed or unreplayed) else 2


def crashmodel(args):
    """Validates simkit's model of a killed process against the kernel: the
    same indexing run is (a) crashed in simulation before event k and
    (b) run in a forked child that really dies (os._exit) before event k; the
    durable states must be identical, for every k of every sampled case."""
    import random

    from . import gen, sandbox
    from .props import c15
    from .world import Fault

    import logging

    logging.getLogger().addHandler(logging.NullHandler())
    n_cases = args.runs or 60
    compared = mism = 0
    t0 = time.time()
    for ci in range(n_cases):
        rng = random.Random(f"crashmodel:{ci}")
        case = c15.gen_case(rng, "quick")
        case["history"] = []
        root = sandbox.make("CM", "quick", ci)
        try:
            ex = c15.Exec(case, root)
            if ex.reference(0) is None:
                continue
            with ex.world:
                ex.do_rewrite(0)
                if rng.random() < 0.5:
                    # start from an existing (stale) cache half of the time
                    ex.world.run_solo(ex.body("auto"), pid=90)
                    ex.world.advance(2)
                    ex.do_rewrite(1 % len(ex.blobs))
                saved = ex._save()
                ex._seed_ticks(0, "cm")
                proc = ex.world.run_solo(ex.body("auto"), pid=100)
                n = proc.nevents
                for k in range(n):
                    ex._load(saved)
                    ex._seed_ticks(0, "cm")
                    ex.world.run_solo(ex.body("auto"), pid=100, fault=Fault("crash", k))
                    with ex.world.suspend():
                        sim = {r: v[0] for r, v in sandbox.snapshot(root).items()}
                    ex._load(saved)
                    ex._seed_ticks(0, "cm")
                    pid = os.fork()
                    if pid == 0:
                        try:
                            ex.world.run_solo(ex.body("auto"), pid=100, fault=Fault("realkill", k))
                        finally:
                            os._exit(0)
                    os.waitpid(pid, 0)
                    with ex.world.suspend():
                        real = {r: v[0] for r, v in sandbox.snapshot(root).items()}
                    compared += 1
                    if sim != real:
                        mism += 1
                        if mism <= 3:
                            print(f"[crashmodel] case {ci} k={k}: simulated {sorted((r, len(b)) for r, b in sim.items())} "
                                  f"vs real {sorted((r, len(b)) for r, b in real.items())}")
        finally:
            sandbox.remove(root)
    out = os.path.join(VERIF, "evidence", "selftest-crashmodel.json")
    with open(out, "w") as fh:
        json.dump({"cases": n_cases, "crash_points_compared_with_real_process_death": compared, "mismatches": mism,
                   "seconds": round(time.time() - t0, 1)}, fh, indent=1)
        fh.write("\n")
    print(f"[crashmodel] {compared} crash points compared against real process death, {mism} mismatches")
    return 0 if not mism else 2


REFACTOR_CHECKS = {"C13": ["C13", "C17"], "C15": ["C15"], "C16": ["C16"], "C17": ["C17", "C15", "C16", "C18"], "C18": ["C18"]}


def specificity(args):
    """Every behaviour-preserving refactor under /verif/refactors must leave
    the checks quiet (exit 0) - the false-alarm corpus."""
    dirs = sorted(glob.glob(os.path.join(VERIF, "refactors", "*", "patch.diff")))
    alarms, rows = [], []
    for patch in dirs:
        rid = os.path.basename(os.path.dirname(patch))
        # --replay doubles as a filter: "<regex on the id>[@<check>]"
        rid_re, _, only_chk = (args.replay or "").partition("@")
        if rid_re and not re.search(rid_re, rid):
            continue
        try:
            d = _scratch_repo(patch)
        except RuntimeError as e:
            print(f"[specificity] {rid}: {e}")
            alarms.append(rid)
            continue
        try:
            # a change is expected to be quiet for the property it was written to
            # preserve; the batches r, s, v and R kept all outputs identical and are
            # cross-checked against the other checks too, the third batch ("may
            # alter behaviour the property does not constrain") only against its own
            checks = REFACTOR_CHECKS.get(rid[:3], [rid[:3]]) if rid[3:4] in ("r", "s", "v", "R") else [rid[:3]]
            for chk in checks:
                if only_chk and chk != only_chk:
                    continue
                env = dict(os.environ)
                env["VERIF_REPO"] = d
                env["VERIF_REPO_SRC"] = os.path.join(d, "src")
                env["VERIF_REPLAY_DIR"] = os.path.join(d, "replays")
                t0 = time.time()
                p = _run_check([CHECK, chk, "--tier", "quick", "--no-evidence", "--no-shrink"], env)
                ok = p.returncode == 0
                rows.append((rid, chk, ok, round(time.time() - t0, 1)))
                print(f"[specificity] {rid} vs {chk}: {'quiet' if ok else 'ALARM rc=%d' % p.returncode} ({time.time() - t0:.1f}s)", flush=True)
                if not ok:
                    alarms.append(f"{rid}/{chk}")
        finally:
            shutil.rmtree(d, ignore_errors=True)
    out = os.path.join(VERIF, "evidence", "selftest-specificity.json")
    new_rows = [dict(zip(("refactor", "check", "quiet", "seconds"), r)) for r in rows]
    if args.replay and os.path.exists(out):
        # a filtered run replaces the rows it re-ran and keeps the others
        with open(out) as fh:
            old = json.load(fh)
        redone = {(r["refactor"], r["check"]) for r in new_rows}
        new_rows = sorted([r for r in old.get("rows", []) if (r["refactor"], r["check"]) not in redone] + new_rows,
                          key=lambda r: (r["refactor"], r["check"]))
        alarms = [f"{r['refactor']}/{r['check']}" for r in new_rows if not r["quiet"]]
    with open(out, "w") as fh:
        json.dump({"rows": new_rows, "alarms": alarms}, fh, indent=1)
        fh.write("\n")
    print(f"[specificity] {len(rows) - len(alarms)} of {len(rows)} quiet; alarms: {alarms}")
    return 0 if not alarms else 2
