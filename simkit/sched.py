"""Baton-passing scheduler for simulated processes.

Every simulated process of a multi-process step is a real thread, but exactly
one of them is runnable at any time: the one that holds the baton.  Every
interposed file operation is a yield point at which the seeded chooser alone
decides who holds the baton next.  The decision list is recorded so that a
run can be replayed (and minimised) without the PRNG.
"""

from __future__ import annotations

import threading
import traceback

from .world import HarnessError, SimCrash


class ReplayChooser:
    """Follows an explicit list of pids; when it runs out (or names a process
    that is not runnable) the current process continues, else the lowest pid."""

    def __init__(self, choices):
        self.choices = list(choices)
        self.i = 0

    def __call__(self, runnable, current, step):
        want = None
        if self.i < len(self.choices):
            want = self.choices[self.i]
        self.i += 1
        pids = [p.pid for p in runnable]
        if want in pids:
            return runnable[pids.index(want)]
        if current is not None and current in runnable:
            return current
        return runnable[0]


class PhaseChooser:
    """Explicit phases [(process index, n)]: the process runs until it has
    passed n yield points (None = until it ends), then the next phase starts.
    After the last phase processes run to completion in index order."""

    def __init__(self, procs, phases):
        self.procs = list(procs)
        self.phases = [list(p) for p in phases]
        self.k = 0
        self.seen = 0

    def __call__(self, runnable, current, step):
        while self.k < len(self.phases):
            idx, n = self.phases[self.k]
            proc = self.procs[idx]
            if proc not in runnable:
                self.k += 1
                self.seen = 0
                continue
            if current is proc:
                self.seen += 1
                if n is not None and self.seen > n:
                    self.k += 1
                    self.seen = 0
                    continue
            return proc
        for p in self.procs:
            if p in runnable:
                return p
        return runnable[0]


class RandomWalkChooser:
    def __init__(self, rng, p_switch):
        self.rng = rng
        self.p = p_switch

    def __call__(self, runnable, current, step):
        r = self.rng.random()
        if current is not None and current in runnable and r >= self.p:
            return current
        others = [p for p in runnable if p is not current]
        return others[self.rng.randrange(len(others))] if others else runnable[0]


class PCTChooser:
    """PCT (Burckhardt et al.): random distinct priorities, the runnable
    process of highest priority runs; at d-1 random change points the running
    process drops below everybody.  Finds bugs of depth d with probability
    >= 1/(n k^(d-1))."""

    def __init__(self, rng, pids, depth, est_steps):
        order = list(pids)
        rng.shuffle(order)
        self.prio = {pid: len(order) - i + depth for i, pid in enumerate(order)}
        self.change = sorted(rng.randrange(max(1, est_steps)) for _ in range(max(0, depth - 1)))
        self.low = depth - 1

    def __call__(self, runnable, current, step):
        while self.change and self.change[0] <= step:
            self.change.pop(0)
            if current is not None:
                self.prio[current.pid] = self.low
                self.low -= 1
        return max(runnable, key=lambda p: self.prio.get(p.pid, 0))


class Baton:
    def __init__(self, world, chooser, timeout=60.0):
        self.world = world
        self.chooser = chooser
        self.timeout = timeout
        self.decisions = []  # pids chosen at decisions with >= 2 runnable processes
        self.signature = []  # (pid, op, kind of file) at each switch
        self.procs = []
        self.step = 0
        self.main_sem = threading.Semaphore(0)
        self.error = None
        self.switches = 0

    # -- choosing ----------------------------------------------------------
    def _choose(self, current):
        runnable = [p for p in self.procs if not p.done]
        if not runnable:
            return None
        if len(runnable) == 1:
            return runnable[0]
        cur = current if (current is not None and not current.done) else None
        nxt = self.chooser(runnable, cur, self.step)
        self.step += 1
        self.decisions.append(nxt.pid)
        return nxt

    def yield_point(self, proc):
        nxt = self._choose(proc)
        if nxt is None or nxt is proc:
            return
        self.switches += 1
        self.world.count_fault("preempt")
        nxt.sem.release()
        if not proc.sem.acquire(timeout=self.timeout):
            raise HarnessError("baton never came back")
        self.world._cur = proc

    # -- running -----------------------------------------------------------
    def _thread_main(self, proc, body):
        w = self.world
        if not proc.sem.acquire(timeout=self.timeout):
            return
        w._cur = proc
        try:
            try:
                val = body()
                proc.outcome = ("returned", val)
            except SimCrash:
                proc.zombie = True
                proc.crashed = True
                proc.outcome = ("crashed", None)
            except SystemExit as e:
                proc.outcome = ("exit", e.code)
            except HarnessError as e:
                self.error = e
                proc.outcome = ("harness", e)
            except Exception as e:  # noqa: BLE001 - outcome of the code under test
                traceback.clear_frames(e.__traceback__)
                proc.outcome = ("raised", e)
            val = None
        except BaseException as e:  # noqa: BLE001
            self.error = e
        finally:
            try:
                w.end_proc(proc)
            except BaseException as e:  # noqa: BLE001
                self.error = e
            proc.done = True
            nxt = None
            try:
                nxt = self._choose(proc)
            except BaseException as e:  # noqa: BLE001
                self.error = e
            if nxt is None or self.error is not None:
                self.main_sem.release()
            else:
                nxt.sem.release()

    def run(self, procs_and_bodies):
        w = self.world
        self.procs = [p for p, _ in procs_and_bodies]
        for proc, body in procs_and_bodies:
            proc.sem = threading.Semaphore(0)
            proc.thread = threading.Thread(
                target=self._thread_main, args=(proc, body), daemon=True,
                name=f"simproc-{proc.pid}",
            )
        prev = w._cur
        w.sched = self
        try:
            for proc in self.procs:
                proc.thread.start()
            first = self._choose(None)
            first.sem.release()
            if not self.main_sem.acquire(timeout=self.timeout * 4):
                raise HarnessError("simulated processes did not finish (deadlock or hang)")
            for proc in self.procs:
                proc.thread.join(timeout=self.timeout)
        finally:
            w.sched = None
            w._cur = prev
        if self.error is not None:
            if isinstance(self.error, HarnessError):
                raise self.error
            raise HarnessError(f"error inside a simulated process thread: {self.error!r}") from self.error
        return self.procs
