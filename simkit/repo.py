"""Access to the code under test (the current working tree of /repo)."""

from __future__ import annotations

import importlib
import os
import sys

REPO = os.environ.get("VERIF_REPO", "/repo")
REPO_SRC = os.environ.get("VERIF_REPO_SRC", os.path.join(REPO, "src"))


def setup_path():
    """Make `import tola` resolve to the working tree we were asked to check."""
    src = os.path.realpath(REPO_SRC)
    sys.path[:] = [p for p in sys.path if os.path.realpath(p or ".") != src]
    sys.path.insert(0, src)
    # tola is a namespace package: make sure no other copy is merged in first
    if "tola" in sys.modules:
        for m in [m for m in sys.modules if m == "tola" or m.startswith("tola.")]:
            del sys.modules[m]
    importlib.invalidate_caches()


def repo_head():
    try:
        import subprocess

        out = subprocess.run(
            ["git", "-C", REPO, "rev-parse", "--short", "HEAD"],
            capture_output=True, text=True, timeout=20, check=False,
        ).stdout.strip()
        dirty = subprocess.run(
            ["git", "-C", REPO, "status", "--porcelain", "--", "src"],
            capture_output=True, text=True, timeout=20, check=False,
        ).stdout.strip()
        return out + ("+dirty" if dirty else "")
    except Exception:  # noqa: BLE001
        return "unknown"


# -- canonical forms used by oracles ---------------------------------------


def row_canon(row):
    # Gap objects are memoised per constructor-argument tuple, so two equal
    # gaps need not be identical: compare by value.
    if hasattr(row, "gap_type"):
        return ("G", int(row.length), str(row.gap_type))
    return ("F", row.name, int(row.start), int(row.end), int(row.strand), tuple(row.tags))


def scaffold_canon(s):
    return (s.name, tuple(row_canon(r) for r in s.rows))


def asm_canon(asm):
    return (
        asm.name,
        tuple(asm.header),
        tuple(scaffold_canon(s) for s in asm.scaffolds),
    )


def index_canon(idx):
    return tuple(
        (name, i.length, i.file_offset, i.residues_per_line, i.max_line_length)
        for name, i in idx.items()
    )
