"""World: interposed file layer, simulated clock, simulated processes, faults.

Durable state is a real directory on tmpfs.  Every file operation the code
under test performs on a path below that directory becomes a numbered *event*
of the simulated process that performs it.  At an event the world may

* hand the baton to another simulated process (multi-process steps),
* kill the process (SimCrash, process becomes a zombie),
* fail or tear the operation,
* advance the simulated clock.

Everything outside the sandbox directory passes straight through.
"""

from __future__ import annotations

import builtins
import errno
import io
import logging
import os
import random
import shutil
import sys
import tempfile
import gc
import threading
import time
import traceback
import weakref

# The simulated clock counts quarter-seconds (TICK_NS each): file systems keep
# sub-second mtimes, and code that truncates or pads timestamps to whole
# seconds must be able to go wrong.  st_mtime stays exact as a float.
TICK_NS = 250_000_000
CLOCK_BASE = 4_000_000_000  # = 1 000 000 000 s

_REAL = {
    "io_open": io.open,
    "stat": os.stat,
    "lstat": os.lstat,
    "replace": os.replace,
    "rename": os.rename,
    "unlink": os.unlink,
    "remove": os.remove,
    "utime": os.utime,
    "getpid": os.getpid,
    "time": time.time,
    "time_ns": time.time_ns,
    "os_open": os.open,
    "truncate": os.truncate,
    "link": os.link,
    "os_write": os.write,
    "os_close": os.close,
    "ftruncate": os.ftruncate,
}

_ACTIVE: "World | None" = None


def is_mutating_op(op):
    """Whether a traced operation name denotes a change of durable state."""
    if op in ("write", "truncate", "replace", "rename", "link", "unlink", "utime"):
        return True
    if op.startswith("open:"):
        return any(c in op[5:] for c in "wxa")
    if op.startswith("osopen:"):
        return "T" in op[7:] or "C" in op[7:]
    return False


class _SeededNames:
    """Replacement for tempfile's random name sequence: names are a function
    of the sandbox and a counter, so that traces do not depend on os.urandom."""

    def __init__(self, salt):
        self.rng = random.Random(os.path.basename(salt))

    def __iter__(self):
        return self

    def __next__(self):
        return "".join(self.rng.choices("abcdefghijklmnopqrstuvwxyz0123456789_", k=8))


class SimCrash(BaseException):
    """The simulated process was killed at this point."""


class HarnessError(Exception):
    """Something is wrong in the simulator, not in the code under test."""


# ---------------------------------------------------------------------------
# processes
# ---------------------------------------------------------------------------


class SimProc:
    def __init__(self, world, pid, name=""):
        self.world = world
        self.pid = pid
        self.name = name
        self.nevents = 0
        self.zombie = False
        self.crashed = False
        self.done = False
        self.outcome = None  # ("returned", value) | ("raised", exc) | ("crashed", None)
        self.files = []  # weakrefs of SimFileIO opened by this process
        self.fault = None  # Fault plan for this process (see World.event)
        self.thread = None
        self.sem = None
        self.trace_start = 0

    def __repr__(self):
        return f"<SimProc {self.pid} ev={self.nevents} z={self.zombie}>"


class Fault:
    """One planned fault for one process.

    kind: crash | torn_write | enospc | eio_write | short_write | eio_read | eacces_open | eio_open | eio_stat | eperm_rename
    at:   event number of the process at which it fires
    frac: for partial writes, fraction (0..1) of the raw write that persists;
          negative: |frac| of it, cut back to the last line boundary before that
    """

    __slots__ = ("kind", "at", "frac", "fired", "where", "then")

    def __init__(self, kind, at, frac=0.0, then=None):
        self.kind = kind
        self.at = at
        self.frac = frac
        self.fired = False
        self.where = None
        self.then = then  # a second fault that becomes armed once this (non-fatal) one has fired

    def to_json(self):
        return {"kind": self.kind, "at": self.at, "frac": self.frac}

    @classmethod
    def from_json(cls, d):
        return cls(d["kind"], d["at"], d.get("frac", 0.0)) if d else None


# ---------------------------------------------------------------------------
# raw file object
# ---------------------------------------------------------------------------


def _nbytes(b):
    try:
        return memoryview(b).nbytes
    except TypeError:
        return len(b)


_RealFileIO = io.FileIO


class SimFileIO(_RealFileIO):
    """FileIO whose reads and writes are events of the simulated world.
    While a world is installed `io.FileIO` is this class, so code that builds
    its own FileIO -> BufferedWriter -> TextIOWrapper stack is interposed as
    well; outside the sandbox it hands out plain FileIO objects."""

    def __new__(cls, path, mode="r", closefd=True, opener=None, world=None):
        w = world if world is not None else _ACTIVE
        owned = False
        if w is not None and not w.suspended:
            owned = w.owns_fd(path) if isinstance(path, int) else w.owns(path)
        if not owned:
            return _RealFileIO(path, mode, closefd, opener)
        return _RealFileIO.__new__(cls)

    def __init__(self, path, mode="r", closefd=True, opener=None, world=None):
        world = world if world is not None else _ACTIVE
        self._w = world
        self._proc = world.current_proc()
        self._sticky_error = None
        self._short_next = None
        self._under_buffer = False
        self._top = None
        if isinstance(path, int):
            try:
                real = os.readlink(f"/proc/self/fd/{path}")
            except OSError:
                real = f"<fd {path}>"
            self._rel = world.rel(real)
            if closefd:
                world.raw_fds.pop(path, None)  # the file object owns the descriptor now
        else:
            self._rel = world.rel(os.fspath(path))
        replaces = ("w" in mode) or ("x" in mode)
        creates = replaces or ("a" in mode)
        existed = True
        if creates and not isinstance(path, int):
            try:
                _REAL["stat"](path)
            except OSError:
                existed = False
        mutating = replaces or (creates and not existed)
        dec = world.event("open:" + mode, self._rel, 0, mutating, fobj=None)
        tidx = len(world.trace) - 1
        if dec is not None and dec[0] == "eacces_open":
            world.note_failed(PermissionError(), tidx)
            raise PermissionError(errno.EACCES, "Permission denied (injected)", str(path))
        if dec is not None and dec[0] == "eio_open":
            world.note_failed(OSError(), tidx)
            raise OSError(errno.EIO, "Input/output error (injected)", str(path))
        try:
            super().__init__(path, mode, closefd, opener)
        except BaseException as e:
            # (an opener may have performed traced operations of its own, and
            # the process may have been killed inside it)
            world.note_failed(e, tidx)
            raise
        if mutating:
            world.stamp_fd(self.fileno())
        world.track(self)

    # -- reads -------------------------------------------------------------
    def _read_event(self, n):
        dec = self._w.event("read", self._rel, n, False, fobj=self)
        if dec is not None:
            if dec[0] == "eio_read":
                raise OSError(errno.EIO, "Input/output error (injected)")
        return dec

    def readinto(self, b):
        n = _nbytes(b)
        w = self._w
        if w.is_zombie(self):
            return super().readinto(b)
        self._read_event(n)
        k = w.short_read(self, n)
        if k is not None and 0 < k < n:
            mv = memoryview(b).cast("B")[:k]
            return super().readinto(mv)
        return super().readinto(b)

    def read(self, size=-1):
        w = self._w
        if w.is_zombie(self):
            return super().read(size)
        self._read_event(-1 if size is None or size < 0 else size)
        return super().read(size)

    def readall(self):
        w = self._w
        if w.is_zombie(self):
            return super().readall()
        self._read_event(-1)
        return super().readall()

    # -- writes ------------------------------------------------------------
    def write(self, b):
        n = _nbytes(b)
        w = self._w
        if w.is_zombie(self):
            return n  # the process is dead: nothing reaches the kernel
        if self._sticky_error is not None:
            w.event("write", self._rel, n, True, fobj=self, faultable=False)
            raise OSError(self._sticky_error, os.strerror(self._sticky_error) + " (injected)")
        dec = w.event("write", self._rel, n, True, fobj=self)
        if dec is not None:
            kind = dec[0]
            j = dec[1]
            if len(dec) > 2 and dec[2] and j:
                cut = bytes(memoryview(b).cast("B")[:j]).rfind(b"\n")
                if cut >= 0:
                    j = cut + 1
                    w.probe("fault_on_line_boundary")
            if kind == "torn_write":
                if j:
                    super().write(memoryview(b).cast("B")[:j])
                    w.stamp_fd(self.fileno())
                w.kill_current(self._proc)
                raise SimCrash(f"torn write {j}/{n} on {self._rel}")
            if kind == "short_write":
                # legal for write(2): fewer bytes than asked for, no error; the
                # caller has to come back with the rest
                j = max(1, j) if n > 1 else n
                r = super().write(memoryview(b).cast("B")[:j])
                w.stamp_fd(self.fileno())
                return r
            if kind in ("enospc", "eio_write"):
                self._sticky_error = errno.ENOSPC if kind == "enospc" else errno.EIO
                if j:
                    r = super().write(memoryview(b).cast("B")[:j])
                    w.stamp_fd(self.fileno())
                    return r  # short write; the retry hits the sticky error
                raise OSError(self._sticky_error, os.strerror(self._sticky_error) + " (injected)")
        r = super().write(b)
        w.stamp_fd(self.fileno())
        return r

    def truncate(self, size=None):
        w = self._w
        if w.is_zombie(self):
            return size if size is not None else self.tell()
        w.event("truncate", self._rel, 0, True, fobj=self)
        r = super().truncate(size)
        w.stamp_fd(self.fileno())
        return r

    def close(self):
        if not self.closed:
            try:
                self._w.untrack(self)
            except Exception:  # noqa: BLE001 - never let bookkeeping break close()
                pass
        return super().close()


class RecordingBufferedReader(io.BufferedReader):
    """BufferedReader that records the sizes of user-level read requests."""

    def __init__(self, raw, buffer_size, log):
        super().__init__(raw, buffer_size)
        self._log = log

    def read(self, size=-1):
        r = super().read(size)
        self._log.append(("read", -1 if size is None or size < 0 else size, len(r)))
        return r

    def read1(self, size=-1):
        r = super().read1(size)
        self._log.append(("read1", size, len(r)))
        return r

    def readline(self, size=-1):
        r = super().readline(size)
        self._log.append(("readline", size, len(r)))
        return r

    def __next__(self):
        r = super().__next__()
        self._log.append(("readline", -1, len(r)))
        return r

    def readlines(self, hint=-1):
        r = super().readlines(hint)
        self._log.append(("readlines", hint, sum(len(x) for x in r)))
        return r

    def readinto(self, b):
        r = super().readinto(b)
        self._log.append(("read", _nbytes(b), r))
        return r


# ---------------------------------------------------------------------------
# the world
# ---------------------------------------------------------------------------


class World:
    def __init__(self, root, *, io_buf=io.DEFAULT_BUFFER_SIZE, text_chunk=8192,
                 short_reads=None, tick_rng=None, p_tick=0.0, record_reads=False,
                 read_buf=None):
        self.root = os.path.realpath(root)
        self.prefix = self.root + os.sep
        self.clock = CLOCK_BASE
        self.sim_seconds = 0
        self.io_buf = io_buf
        self.read_buf = read_buf if read_buf is not None else io_buf  # read-only opens
        self.text_chunk = text_chunk
        self.short_reads = short_reads  # None or a random.Random
        self.tick_rng = tick_rng
        self.p_tick = p_tick
        self.trace = []  # (pid, nevent, op, relpath, nbytes, note)
        self.procs = {}
        self._main = SimProc(self, 1, "main")
        self.procs[1] = self._main
        self._cur = self._main
        self._next_pid = 100
        self.sched = None  # set during multi-process steps
        self.faults_fired = {}
        self.probes = {}
        self.open_files = []  # weakrefs
        self.suspended = 0
        self.record_reads = record_reads
        self.read_logs = {}  # relpath -> list of user-level read requests
        self.nonyield_suffixes = (".log",)
        self.nonyield_paths = ()  # operations on these commute with everything (immutable during a step)
        self.events = 0
        self._last_failed = None
        self.raw_fds = {}  # fd opened through os.open on a sandbox path -> (relative path, owning process)

    # -- helpers -----------------------------------------------------------
    def rel(self, path):
        p = os.path.abspath(path) if not path.startswith("<") else path
        if p.startswith(self.prefix):
            return p[len(self.prefix):]
        return p

    def owns(self, path):
        if self.suspended:
            return False
        if isinstance(path, int):
            return False
        try:
            p = os.fspath(path)
        except TypeError:
            return False
        if isinstance(p, bytes):
            p = os.fsdecode(p)
        p = os.path.abspath(p)
        return p.startswith(self.prefix)

    def owns_fd(self, fd):
        if self.suspended:
            return False
        try:
            real = os.readlink(f"/proc/self/fd/{fd}")
        except OSError:
            return False
        return real.startswith(self.prefix)

    def path(self, rel):
        return os.path.join(self.root, rel)

    def probe(self, name, n=1):
        self.probes[name] = self.probes.get(name, 0) + n

    def count_fault(self, kind):
        self.faults_fired[kind] = self.faults_fired.get(kind, 0) + 1

    def current_proc(self):
        return self._cur

    def is_zombie(self, fobj):
        return fobj._proc.zombie

    def kill_current(self, proc):
        proc.zombie = True
        proc.crashed = True

    def note_failed(self, exc, idx=None):
        """Marks a traced operation as one the kernel refused."""
        if self.trace:
            i = len(self.trace) - 1 if idx is None else idx
            if 0 <= i < len(self.trace):
                t = self.trace[i]
                if not t[5].startswith("failed"):
                    self.trace[i] = t[:5] + ("failed:" + type(exc).__name__,)

    def track(self, fobj):
        self.open_files.append(weakref.ref(fobj))

    def untrack(self, fobj):
        self.open_files = [r for r in self.open_files if r() is not None and r() is not fobj]

    # -- clock -------------------------------------------------------------
    def advance(self, n):
        if n:
            self.clock += n
            self.sim_seconds += max(0, n) * TICK_NS / 1e9

    def stamp_fd(self, fd):
        ns = self.clock * TICK_NS
        _REAL["utime"](fd, ns=(ns, ns))

    def stamp_path(self, path, when=None):
        ns = (self.clock if when is None else when) * TICK_NS
        _REAL["utime"](path, ns=(ns, ns))

    # -- the event hook ----------------------------------------------------
    def event(self, op, rel, nbytes, mutating, fobj=None, faultable=True):
        """Called before a file operation is performed.  Returns None or a
        fault decision tuple for the caller to act on; raises SimCrash when the
        process is killed at this event."""
        proc = self._cur
        if fobj is not None and fobj._proc is not proc:
            # e.g. a finaliser running on somebody else's turn: apply the
            # operation on behalf of the owner without making it an event.
            return None
        if self.sched is not None and threading.current_thread() is not proc.thread:
            return None
        if proc.zombie:
            raise SimCrash("zombie")
        n = proc.nevents
        proc.nevents = n + 1
        self.events += 1
        dec = None
        f = proc.fault
        if faultable and f is not None and not f.fired and n >= f.at:
            dec = self._fire(proc, f, op, rel, nbytes, n)
            if f.fired and f.then is not None and not proc.zombie:
                proc.fault = f.then
        if mutating and self.tick_rng is not None and self.p_tick > 0:
            if self.tick_rng.random() < self.p_tick:
                self.advance(1)
        note = "" if dec is None else dec[0]
        self.trace.append((proc.pid, n, op, rel, nbytes, note))
        if self.sched is not None and not rel.endswith(self.nonyield_suffixes) and rel not in self.nonyield_paths:
            self.sched.yield_point(proc)
            if proc.zombie:
                raise SimCrash("killed while parked")
        return dec

    def _fire(self, proc, f, op, rel, nbytes, n):
        kind = f.kind
        if kind == "crash":
            if n != f.at:
                return None
            f.fired = True
            f.where = (op, rel)
            self.count_fault("crash")
            self.trace.append((proc.pid, n, op, rel, nbytes, "CRASH"))
            self.kill_current(proc)
            raise SimCrash(f"crash before event {n} ({op} {rel})")
        if kind == "realkill":
            # crash-model validation only (selftest): die for real, right here
            if n != f.at:
                return None
            os._exit(137)
        if kind in ("torn_write", "enospc", "eio_write", "short_write"):
            # fires at the first raw write at or after event f.at
            if op != "write":
                return None
            f.fired = True
            f.where = (op, rel)
            self.count_fault(kind)
            j = int(nbytes * abs(f.frac))
            if j >= nbytes:
                j = nbytes - 1
            if j < 0:
                j = 0
            if 0 < j < nbytes:
                self.probe("fault_inside_flush")
            # a negative fraction asks for a cut on a line boundary: the write
            # persists up to and including the last newline before that point
            # (a truncated line-oriented file that still parses)
            return (kind, j, f.frac < 0)
        if kind == "eio_read":
            if op != "read":
                return None
            f.fired = True
            f.where = (op, rel)
            self.count_fault(kind)
            return (kind, 0)
        if kind in ("eacces_open", "eio_open"):
            # eacces: the directory is read-only; eio: a transient error of the kind
            # network file systems return from open(2)
            if not (op.startswith("open:") and any(c in op[5:] for c in "wxa+")):
                return None
            f.fired = True
            f.where = (op, rel)
            self.count_fault(kind)
            return (kind, 0)
        if kind == "eio_stat":
            # a transient error from stat(2) (network file systems)
            if op != "stat":
                return None
            f.fired = True
            f.where = (op, rel)
            self.count_fault(kind)
            return (kind, 0)
        if kind == "eperm_rename":
            # rename(2) refused (sticky directory, file busy); nothing is moved
            if op not in ("replace", "rename"):
                return None
            f.fired = True
            f.where = (op, rel)
            self.count_fault(kind)
            return (kind, 0)
        raise HarnessError(f"unknown fault kind {kind}")

    def short_read(self, fobj, n):
        if self.short_reads is None or not fobj._under_buffer or n <= 1:
            return None
        r = self.short_reads
        if r.random() < 0.3:
            self.count_fault("short_raw_read")
            return r.randrange(1, n)
        return None

    # -- open --------------------------------------------------------------
    def sim_open(self, file, mode="r", buffering=-1, encoding=None, errors=None,
                 newline=None, closefd=True, opener=None):
        if isinstance(file, int):
            if not self.owns_fd(file):
                return _REAL["io_open"](file, mode, buffering, encoding, errors, newline, closefd, opener)
        elif not self.owns(file):
            return _REAL["io_open"](file, mode, buffering, encoding, errors, newline, closefd, opener)
        if not isinstance(mode, str):
            raise TypeError("invalid mode: %r" % mode)
        modes = set(mode)
        if modes - set("axrwb+tU") or len(mode) > len(modes):
            raise ValueError("invalid mode: %r" % mode)
        creating = "x" in modes
        reading = "r" in modes
        writing = "w" in modes
        appending = "a" in modes
        updating = "+" in modes
        text = "t" in modes
        binary = "b" in modes
        if text and binary:
            raise ValueError("can't have text and binary mode at once")
        if creating + reading + writing + appending > 1:
            raise ValueError("can't have read/write/append mode at once")
        if not (creating or reading or writing or appending):
            raise ValueError("must have exactly one of read/write/append mode")
        if binary and encoding is not None:
            raise ValueError("binary mode doesn't take an encoding argument")
        if binary and errors is not None:
            raise ValueError("binary mode doesn't take an errors argument")
        if binary and newline is not None:
            raise ValueError("binary mode doesn't take a newline argument")
        rawmode = (
            (creating and "x" or "")
            + (reading and "r" or "")
            + (writing and "w" or "")
            + (appending and "a" or "")
            + (updating and "+" or "")
        )
        if not isinstance(file, int):
            file = os.fspath(file)
        raw = SimFileIO(file, rawmode, closefd, opener, world=self)
        result = raw
        try:
            return self._wrap(raw, result, mode, buffering, encoding, errors, newline,
                              binary, updating, creating, writing, appending, reading)
        except BaseException:
            try:
                result.close()
            except BaseException:  # noqa: BLE001
                pass
            raise

    def _wrap(self, raw, result, mode, buffering, encoding, errors, newline,
              binary, updating, creating, writing, appending, reading):
        res = self._wrap2(raw, result, mode, buffering, encoding, errors, newline,
                          binary, updating, creating, writing, appending, reading)
        raw._top = weakref.ref(res)
        return res

    def _wrap2(self, raw, result, mode, buffering, encoding, errors, newline,
               binary, updating, creating, writing, appending, reading):
        line_buffering = False
        if buffering == 1:
            buffering = -1
            line_buffering = True
        if buffering < 0:
            buffering = self.read_buf if (reading and not updating) else self.io_buf
        if buffering == 0:
            if binary:
                return result
            raise ValueError("can't have unbuffered text I/O")
        raw._under_buffer = True
        if updating:
            buffer = io.BufferedRandom(raw, buffering)
        elif creating or writing or appending:
            buffer = io.BufferedWriter(raw, buffering)
        elif reading:
            if self.record_reads and binary:
                log = self.read_logs.setdefault(raw._rel, [])
                buffer = RecordingBufferedReader(raw, buffering, log)
            else:
                buffer = io.BufferedReader(raw, buffering)
        else:
            raise ValueError("unknown mode: %r" % mode)
        result = buffer
        if binary:
            return result
        encoding = io.text_encoding(encoding)
        textio = io.TextIOWrapper(buffer, encoding, errors, newline, line_buffering)
        result = textio
        textio.mode = mode
        try:
            textio._CHUNK_SIZE = max(1, self.text_chunk)
        except (AttributeError, ValueError):
            pass
        return result

    # -- path operations ---------------------------------------------------
    def sim_stat(self, path, *a, **kw):
        if self.owns(path):
            p = self._cur
            if not p.zombie:
                dec = self.event("stat", self.rel(os.fspath(path)), 0, False)
                if dec is not None and dec[0] == "eio_stat":
                    raise OSError(errno.EIO, "Input/output error (injected)", os.fspath(path))
        return _REAL["stat"](path, *a, **kw)

    def sim_lstat(self, path, *a, **kw):
        return _REAL["lstat"](path, *a, **kw)

    def _two_path(self, name, src, dst, a, kw):
        so, do = self.owns(src), self.owns(dst)
        if not (so or do):
            return _REAL[name](src, dst, *a, **kw)
        p = self._cur
        if p.zombie:
            return None
        rs, rd = self.rel(os.fspath(src)), self.rel(os.fspath(dst))
        dec = self.event(name, rd, 0, True)
        tidx = len(self.trace) - 1
        if dec is not None and dec[0] == "eperm_rename":
            e = PermissionError(errno.EPERM, "Operation not permitted (injected)", os.fspath(src))
            self.note_failed(e, tidx)
            raise e
        self.trace[tidx] = self.trace[tidx][:5] + ("from:" + rs,)
        try:
            return _REAL[name](src, dst, *a, **kw)
        except OSError as e:
            self.trace[tidx] = self.trace[tidx][:5] + ("",)
            self.note_failed(e, tidx)
            raise

    def sim_replace(self, src, dst, *a, **kw):
        return self._two_path("replace", src, dst, a, kw)

    def sim_rename(self, src, dst, *a, **kw):
        return self._two_path("rename", src, dst, a, kw)

    def sim_link(self, src, dst, *a, **kw):
        return self._two_path("link", src, dst, a, kw)

    def sim_unlink(self, path, *a, **kw):
        if not self.owns(path):
            return _REAL["unlink"](path, *a, **kw)
        p = self._cur
        if p.zombie:
            return None
        self.event("unlink", self.rel(os.fspath(path)), 0, True)
        tidx = len(self.trace) - 1
        try:
            return _REAL["unlink"](path, *a, **kw)
        except OSError as e:
            self.note_failed(e, tidx)
            raise

    def sim_truncate(self, path, length):
        if isinstance(path, int) or not self.owns(path):
            return _REAL["truncate"](path, length)
        p = self._cur
        if p.zombie:
            return None
        self.event("truncate", self.rel(os.fspath(path)), 0, True)
        r = _REAL["truncate"](path, length)
        self.stamp_path(path)
        return r

    def sim_utime(self, path, *a, **kw):
        if isinstance(path, int) or not self.owns(path):
            return _REAL["utime"](path, *a, **kw)
        p = self._cur
        if p.zombie:
            return None
        self.event("utime", self.rel(os.fspath(path)), 0, True)
        if not a and not kw:
            return self.stamp_path(path)
        if (a and a[0] is None) and not kw:
            return self.stamp_path(path)
        return _REAL["utime"](path, *a, **kw)

    def sim_os_open(self, path, flags, mode=0o777, *, dir_fd=None):
        if dir_fd is not None or not self.owns(path):
            if dir_fd is None:
                return _REAL["os_open"](path, flags, mode)
            return _REAL["os_open"](path, flags, mode, dir_fd=dir_fd)
        p = self._cur
        if p.zombie:
            raise SimCrash("zombie")
        existed = True
        try:
            _REAL["stat"](path)
        except OSError:
            existed = False
        mutating = bool(flags & os.O_TRUNC) or (bool(flags & os.O_CREAT) and not existed)
        opname = "osopen:" + ("T" if flags & os.O_TRUNC else "") + ("C" if flags & os.O_CREAT else "") + (
            "X" if flags & os.O_EXCL else "") + ("W" if flags & (os.O_WRONLY | os.O_RDWR) else "R")
        self.event(opname, self.rel(os.fspath(path)), 0, mutating)
        tidx = len(self.trace) - 1
        try:
            fd = _REAL["os_open"](path, flags, mode)
        except OSError as e:
            self.note_failed(e, tidx)
            raise
        if mutating:
            self.stamp_fd(fd)
        self.raw_fds[fd] = (self.rel(os.fspath(path)), p)
        return fd

    def sim_os_write(self, fd, data):
        """os.write on a descriptor obtained from os.open on a sandbox path:
        the same event and fault semantics as a raw FileIO write."""
        ent = self.raw_fds.get(fd)
        if ent is None or self.suspended:
            return _REAL["os_write"](fd, data)
        rel, owner = ent
        n = _nbytes(data)
        if owner.zombie:
            return n
        dec = self.event("write", rel, n, True)
        if dec is not None:
            kind, j = dec[0], dec[1]
            if len(dec) > 2 and dec[2] and j:
                cut = bytes(memoryview(data).cast("B")[:j]).rfind(b"\n")
                if cut >= 0:
                    j = cut + 1
            if kind == "torn_write":
                if j:
                    _REAL["os_write"](fd, bytes(memoryview(data).cast("B")[:j]))
                    self.stamp_fd(fd)
                self.kill_current(owner)
                raise SimCrash(f"torn os.write {j}/{n} on {rel}")
            if kind == "short_write":
                j = max(1, j) if n > 1 else n
                r = _REAL["os_write"](fd, bytes(memoryview(data).cast("B")[:j]))
                self.stamp_fd(fd)
                return r
            if kind in ("enospc", "eio_write"):
                err = errno.ENOSPC if kind == "enospc" else errno.EIO
                if j:
                    r = _REAL["os_write"](fd, bytes(memoryview(data).cast("B")[:j]))
                    self.stamp_fd(fd)
                    return r
                raise OSError(err, os.strerror(err) + " (injected)")
        r = _REAL["os_write"](fd, data)
        self.stamp_fd(fd)
        return r

    def sim_os_close(self, fd):
        self.raw_fds.pop(fd, None)
        return _REAL["os_close"](fd)

    def sim_ftruncate(self, fd, length):
        ent = self.raw_fds.get(fd)
        if ent is None or self.suspended:
            return _REAL["ftruncate"](fd, length)
        if ent[1].zombie:
            return None
        self.event("truncate", ent[0], 0, True)
        r = _REAL["ftruncate"](fd, length)
        self.stamp_fd(fd)
        return r

    def sim_getpid(self):
        if self.suspended:
            return _REAL["getpid"]()
        return self._cur.pid

    def sim_time(self):
        return self.clock * TICK_NS / 1e9

    def sim_time_ns(self):
        return self.clock * TICK_NS

    # -- install / uninstall ----------------------------------------------
    def install(self):
        global _ACTIVE
        if _ACTIVE is not None:
            raise HarnessError("a world is already active")
        _ACTIVE = self
        io.open = self.sim_open
        builtins.open = self.sim_open
        io.FileIO = SimFileIO
        os.stat = self.sim_stat
        os.replace = self.sim_replace
        os.rename = self.sim_rename
        os.link = self.sim_link
        os.unlink = self.sim_unlink
        os.remove = self.sim_unlink
        os.utime = self.sim_utime
        os.truncate = self.sim_truncate
        os.open = self.sim_os_open
        os.write = self.sim_os_write
        os.close = self.sim_os_close
        os.ftruncate = self.sim_ftruncate
        os.getpid = self.sim_getpid
        # no in-kernel copies behind our back: shutil falls back to read()/write()
        self._old_shutil = (shutil._USE_CP_SENDFILE, getattr(shutil, "_HAS_FCOPYFILE", False))
        shutil._USE_CP_SENDFILE = False
        shutil._HAS_FCOPYFILE = False
        time.time = self.sim_time
        time.time_ns = self.sim_time_ns
        self._old_unraisable = sys.unraisablehook
        sys.unraisablehook = self._unraisable
        self._old_tmpnames = tempfile._name_sequence
        tempfile._name_sequence = _SeededNames(self.root)

    def uninstall(self):
        global _ACTIVE
        io.open = _REAL["io_open"]
        builtins.open = _REAL["io_open"]
        io.FileIO = _RealFileIO
        os.stat = _REAL["stat"]
        os.replace = _REAL["replace"]
        os.rename = _REAL["rename"]
        os.link = _REAL["link"]
        os.unlink = _REAL["unlink"]
        os.remove = _REAL["remove"]
        os.utime = _REAL["utime"]
        os.truncate = _REAL["truncate"]
        os.open = _REAL["os_open"]
        os.write = _REAL["os_write"]
        os.close = _REAL["os_close"]
        os.ftruncate = _REAL["ftruncate"]
        shutil._USE_CP_SENDFILE, shutil._HAS_FCOPYFILE = self._old_shutil
        os.getpid = _REAL["getpid"]
        time.time = _REAL["time"]
        time.time_ns = _REAL["time_ns"]
        sys.unraisablehook = self._old_unraisable
        tempfile._name_sequence = self._old_tmpnames
        _ACTIVE = None

    def _unraisable(self, u):
        if isinstance(u.exc_value, SimCrash):
            self.probe("crash_inside_finaliser")
            return
        self._old_unraisable(u)

    def __enter__(self):
        self.install()
        return self

    def __exit__(self, *exc):
        try:
            self.close_all(flush=False)
        finally:
            self.uninstall()
        return False

    class _Suspend:
        def __init__(self, w):
            self.w = w

        def __enter__(self):
            self.w.suspended += 1

        def __exit__(self, *exc):
            self.w.suspended -= 1
            return False

    def suspend(self):
        """Context manager: operations inside are performed for real, without
        events (used by oracles and environment actions)."""
        return World._Suspend(self)

    # -- process life-cycle ------------------------------------------------
    def new_proc(self, name="", pid=None):
        if pid is None:
            pid = self._next_pid
            self._next_pid += 1
        p = SimProc(self, pid, name)
        p.trace_start = len(self.trace)
        self.procs[pid] = p
        return p

    def end_proc(self, proc):
        """Close what the process left open: flushed if it ended normally (what
        interpreter shutdown does), dropped if it was killed."""
        for r in list(self.open_files):
            f = r()
            if f is None or f._proc is not proc or f.closed:
                continue
            if proc.zombie:
                try:
                    _RealFileIO.close(f)
                except OSError:
                    pass
            else:
                top = f._top() if f._top is not None else None
                try:
                    (top if top is not None else f).close()
                except SimCrash:
                    proc.zombie = True
                    proc.crashed = True
                    try:
                        _RealFileIO.close(f)
                    except OSError:
                        pass
                except OSError:
                    pass
        self.open_files = [r for r in self.open_files if r() is not None and not r().closed]
        for fd, (_rel, owner) in list(self.raw_fds.items()):
            if owner is proc:  # the kernel closes a dead (or finished) process's descriptors
                self.raw_fds.pop(fd, None)
                try:
                    _REAL["os_close"](fd)
                except OSError:
                    pass
        proc.done = True

    def close_raw_fds(self):
        for fd in list(self.raw_fds):
            self.raw_fds.pop(fd, None)
            try:
                _REAL["os_close"](fd)
            except OSError:
                pass

    def close_all(self, flush=False):
        self.close_raw_fds()
        for r in list(self.open_files):
            f = r()
            if f is None or f.closed:
                continue
            f._proc.zombie = True if not flush else f._proc.zombie
            try:
                _RealFileIO.close(f)
            except OSError:
                pass
        self.open_files = []

    def run_solo(self, body, name="", fault=None, collect=False, pid=None):
        """Run body() as a fresh simulated process on the calling thread."""
        proc = self.new_proc(name, pid)
        proc.fault = fault
        prev = self._cur
        self._cur = proc
        try:
            try:
                val = body()
                proc.outcome = ("returned", val)
            except SimCrash:
                proc.zombie = True
                proc.crashed = True
                proc.outcome = ("crashed", None)
            except SystemExit as e:
                proc.outcome = ("exit", e.code)
            except Exception as e:  # noqa: BLE001 - the outcome of the code under test
                traceback.clear_frames(e.__traceback__)
                proc.outcome = ("raised", e)
            val = None
            if collect:
                gc.collect()
        finally:
            # the body's locals are gone: files it did not close have been
            # finalised by reference counting while the process was current
            try:
                self.end_proc(proc)
            finally:
                self._cur = prev
        if proc.crashed and proc.outcome[0] != "crashed":
            # killed inside a finaliser; the exception was swallowed there and
            # the process ran on as a zombie with no effect on the world
            proc.outcome = ("crashed", None)
        return proc


    def run_forked(self, body, name="", fault=None, pid=None, timeout=900):
        """run_solo in a forked child of this interpreter.

        A simulated process run by run_solo shares the interpreter with every
        other one: what the code under test keeps in module globals (memo
        tables, class attributes, the logging tree, registered callbacks)
        survives from one "process" into the next, which a real process
        boundary does not allow.  Here the process really is one: it starts
        from this interpreter's state as it is now, and whatever it does to
        that state dies with it.  Durable state (the sandbox on tmpfs) is
        shared; the child's trace tail, clock and counters are merged back.
        The body's return value must be picklable."""
        import pickle
        import types

        if pid is None:
            pid = self._next_pid
            self._next_pid += 1
        t0 = len(self.trace)
        rfd, wfd = os.pipe()
        child = os.fork()
        if child == 0:
            status = 1
            try:
                _REAL["os_close"](rfd)
                try:
                    proc = self.run_solo(body, name=name, fault=fault, collect=True, pid=pid)
                    kind, val = proc.outcome
                    if kind == "raised":
                        val = "".join(traceback.format_exception_only(type(val), val)).strip()
                    out = {
                        "outcome": (kind, val), "nevents": proc.nevents, "crashed": proc.crashed,
                        "trace": self.trace[t0:], "clock": self.clock, "sim_seconds": self.sim_seconds,
                        "events": self.events, "probes": dict(self.probes), "faults_fired": dict(self.faults_fired),
                        "fault_fired": bool(fault is not None and fault.fired), "fault_where": getattr(fault, "where", None),
                    }
                    blob = pickle.dumps(out)
                except BaseException as e:  # noqa: BLE001 - reported to the parent as a harness error
                    blob = pickle.dumps({"harness_error": "".join(traceback.format_exception(e))})
                with _REAL["io_open"](wfd, "wb") as fh:
                    fh.write(blob)
                status = 0
            finally:
                os._exit(status)
        _REAL["os_close"](wfd)
        chunks = []
        with _REAL["io_open"](rfd, "rb") as fh:
            while True:
                c = fh.read(1 << 20)
                if not c:
                    break
                chunks.append(c)
        _pid, st = os.waitpid(child, 0)
        if not chunks:
            raise HarnessError(f"forked simulated process {name!r} died without a result (wait status {st})")
        out = pickle.loads(b"".join(chunks))
        if "harness_error" in out:
            raise HarnessError("in forked simulated process: " + out["harness_error"])
        self.trace.extend(out["trace"])
        self.clock, self.sim_seconds, self.events = out["clock"], out["sim_seconds"], out["events"]
        self.probes.clear()
        self.probes.update(out["probes"])
        self.faults_fired.clear()
        self.faults_fired.update(out["faults_fired"])
        if fault is not None and out["fault_fired"]:
            fault.fired, fault.where = True, out["fault_where"]
        self.probe("forked_simulated_processes")
        return types.SimpleNamespace(pid=pid, name=name, outcome=out["outcome"], nevents=out["nevents"],
                                     crashed=out["crashed"], zombie=out["crashed"], trace_start=t0)


def fork_call(fn):
    """fn() in a forked child; its picklable result (or the exception it
    raised, as ('error', text)) comes back over a pipe.  For computations that
    must not see, or leave, state in this interpreter - e.g. a reference result
    obtained from the code under test."""
    import pickle

    rfd, wfd = os.pipe()
    child = os.fork()
    if child == 0:
        status = 1
        try:
            _REAL["os_close"](rfd)
            try:
                blob = pickle.dumps(("ok", fn()))
            except BaseException as e:  # noqa: BLE001
                blob = pickle.dumps(("error", "".join(traceback.format_exception_only(type(e), e)).strip()))
            with _REAL["io_open"](wfd, "wb") as fh:
                fh.write(blob)
            status = 0
        finally:
            os._exit(status)
    _REAL["os_close"](wfd)
    chunks = []
    with _REAL["io_open"](rfd, "rb") as fh:
        while True:
            c = fh.read(1 << 20)
            if not c:
                break
            chunks.append(c)
    os.waitpid(child, 0)
    if not chunks:
        raise HarnessError("forked computation died without a result")
    return pickle.loads(b"".join(chunks))


def active_world():
    return _ACTIVE


def quiet_logging():
    """Detach whatever handlers earlier code installed on the root logger."""
    root = logging.getLogger()
    for h in list(root.handlers):
        root.removeHandler(h)
        try:
            h.close()
        except Exception:  # noqa: BLE001
            pass
    root.setLevel(logging.WARNING)
