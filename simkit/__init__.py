"""simkit - a small deterministic simulator for synchronous, file-based Python
programs (see /verif/DESIGN.md section 3).

One integer seed decides every run.  The code under test is the real
`tola.*` package from the current working tree; what is simulated is the raw
file object, the clock that stamps mtimes, the pid, the scheduler that decides
which simulated process performs the next file operation, and the faults
(crash, torn write, ENOSPC/EIO, permission errors, short raw reads).
"""
