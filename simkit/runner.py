"""Batch runner: seeds -> simulated runs on a process pool -> evidence,
violations, replay files."""

from __future__ import annotations

import concurrent.futures as cf
import faulthandler
import hashlib
import json
import multiprocessing
import os
import subprocess
import sys
import time
import traceback

VERIF = os.path.dirname(os.path.dirname(os.path.abspath(__file__)))
EVIDENCE_DIR = os.path.join(VERIF, "evidence")
REPLAY_DIR = os.environ.get("VERIF_REPLAY_DIR") or os.path.join(VERIF, "replays")
KNOWN_FINDINGS = os.path.join(VERIF, "known_findings.json")

EXIT_OK = 0
EXIT_VIOLATION = 1
EXIT_HARNESS = 2

REAL_STUB_TABLE = {
    "real": [
        "all of tola.* from the current working tree of /repo (indexer, cache logic, parsers, formatters, remapper, CLIs)",
        "pathlib, io.BufferedReader/Writer/Random, io.TextIOWrapper, logging, click, yaml",
        "kernel file semantics (tmpfs directory): O_EXCL, O_TRUNC, rename atomicity",
    ],
    "simulated": [
        "raw file object (reads/writes are events), mtime clock, pid, scheduler, crash/kill, I/O errors (write, read, open, stat, rename)",
        "process exit: atexit callbacks registered by the tool are collected and run when the simulated process ends, then logging is shut down",
        "process boundary in C16/C17 and for reference computations in C15: a forked child of the interpreter (module globals, memo tables and the logging tree of one simulated process never reach the next)",
    ],
    "stub": [
        "racing processes in C15: threads of one interpreter under a baton-passing scheduler, sharing module globals",
        "PretextView: a generator of PretextView-model AGP maps (workload only)",
    ],
}


def run_seed(master, prop, i):
    h = hashlib.blake2b(f"{master}:{prop}:{i}".encode(), digest_size=8).digest()
    return int.from_bytes(h, "big")


def digest_of(obj):
    return hashlib.blake2b(
        json.dumps(obj, sort_keys=True, default=repr).encode(), digest_size=12
    ).hexdigest()


def run_isolated(mod, rs, i, tier):
    """One run in a forked child of the worker: whatever the code under test
    keeps in module globals (memo tables, logging filters, caches) starts from
    the post-import state in every run, so a run is a function of its seed
    alone - also for a changed tree - and a replay of one run can reproduce it."""
    if os.environ.get("VERIF_ISOLATE", "1") == "0":
        return mod.run_one(rs, i, tier)
    rfd, wfd = os.pipe()
    pid = os.fork()
    if pid == 0:
        code = 0
        try:
            os.close(rfd)
            try:
                res = mod.run_one(rs, i, tier)
            except BaseException as e:  # noqa: BLE001
                res = {"harness_error": "".join(traceback.format_exception(e))[-4000:]}
            data = json.dumps(res, default=repr).encode()
            with os.fdopen(wfd, "wb") as fh:
                fh.write(data)
        except BaseException:  # noqa: BLE001
            code = 3
        finally:
            os._exit(code)
    os.close(wfd)
    with os.fdopen(rfd, "rb") as fh:
        data = fh.read()
    _, status = os.waitpid(pid, 0)
    if not data:
        return {"harness_error": f"isolated run died (wait status {status})"}
    return json.loads(data)


def _worker_chunk(args):
    modname, master, tier, idxs, hang_s = args
    import importlib

    faulthandler.dump_traceback_later(hang_s, exit=True)
    try:
        mod = importlib.import_module(modname)
        out = []
        for i in idxs:
            rs = run_seed(master, mod.ID, i)
            try:
                r = run_isolated(mod, rs, i, tier)
            except BaseException as e:  # noqa: BLE001
                r = {"harness_error": "".join(traceback.format_exception(e))[-4000:]}
            r["i"] = i
            r["run_seed"] = rs
            out.append(r)
        return out
    finally:
        faulthandler.cancel_dump_traceback_later()


class Agg:
    def __init__(self):
        self.runs = 0
        self.evals = 0
        self.events = 0
        self.sim_seconds = 0
        self.faults = {}
        self.probes = {}
        self.classes = set()
        self.digests = set()
        self.discarded = 0
        self.violations = []
        self.harness_errors = []
        self.samples = []
        self.extra = {}
        self.sets = {}

    def add(self, r):
        if "harness_error" in r:
            self.harness_errors.append((r.get("i"), r["harness_error"]))
            return
        self.runs += 1
        self.evals += r.get("evals", 1)
        self.events += r.get("events", 0)
        self.sim_seconds += r.get("sim_seconds", 0)
        for k, v in r.get("faults", {}).items():
            self.faults[k] = self.faults.get(k, 0) + v
        for k, v in r.get("probes", {}).items():
            self.probes[k] = self.probes.get(k, 0) + v
        self.classes.update(r.get("classes", ()))
        if r.get("digest"):
            self.digests.add(r["digest"])
        self.discarded += r.get("discarded", 0)
        for v in r.get("violations", ()):
            v = dict(v)
            v["i"] = r["i"]
            v["run_seed"] = r["run_seed"]
            self.violations.append(v)
        if r.get("sample") is not None and len(self.samples) < 4:
            self.samples.append(r["sample"])
        for k, v in r.get("sets", {}).items():
            self.sets.setdefault(k, set()).update(v)
        for k, v in r.get("extra", {}).items():
            if isinstance(v, (int, float)):
                self.extra[k] = self.extra.get(k, 0) + v
            elif isinstance(v, list):
                self.extra.setdefault(k, [])
                if len(self.extra[k]) < 50:
                    self.extra[k].extend(v[: 50 - len(self.extra[k])])


def run_batch(mod, tier, master, nruns, workers, chunk, wall_budget, hang_s=300):
    """Returns (Agg, per-run digests in index order, wall seconds)."""
    t0 = time.time()
    agg = Agg()
    digests = [None] * nruns
    idxs = list(range(nruns))
    chunks = [idxs[j:j + chunk] for j in range(0, nruns, chunk)]
    results = {}
    # VERIF_STOP_AT_FIRST=1 (the sensitivity self-test): runs are gathered in index
    # order, so stopping after the first chunk that holds a violation reports the
    # same first violation as the whole batch would, only sooner
    stop_first = os.environ.get("VERIF_STOP_AT_FIRST") == "1"
    abort = False
    if workers <= 1:
        for c in chunks:
            for r in _worker_chunk((mod.__name__, master, tier, c, hang_s)):
                results[r["i"]] = r
            if time.time() - t0 > wall_budget:
                break
            if stop_first and any(results[i].get("violations") for i in c if i in results):
                break
    else:
        ctx = multiprocessing.get_context("fork")
        ex = cf.ProcessPoolExecutor(max_workers=workers, mp_context=ctx)
        try:
            futs = [ex.submit(_worker_chunk, (mod.__name__, master, tier, c, hang_s)) for c in chunks]
            for f in futs:
                left = wall_budget - (time.time() - t0)
                try:
                    got = f.result(timeout=max(1.0, left))
                    for r in got:
                        results[r["i"]] = r
                    if stop_first and any(r.get("violations") for r in got):
                        abort = True
                        break
                except cf.TimeoutError:
                    # the batch is as deep as its wall budget allows: what has been gathered
                    # (in index order) stands, the rest is not run
                    agg.truncated_at = len(results)
                    abort = True
                    break
                except cf.process.BrokenProcessPool as e:
                    agg.harness_errors.append((None, f"worker died: {e!r}"))
                    break
        finally:
            for p in list(getattr(ex, "_processes", {}).values()):
                if agg.harness_errors or abort:
                    try:
                        p.kill()
                    except Exception:  # noqa: BLE001
                        pass
            ex.shutdown(wait=not (agg.harness_errors or abort), cancel_futures=True)
    for i in sorted(results):
        r = results[i]
        digests[i] = r.get("digest")
        agg.add(r)
    if getattr(agg, "truncated_at", None) is not None:
        agg.probes["runs_not_executed_wall_budget_reached"] = nruns - len(results)
        print(f"[{getattr(mod, 'ID', '?')}] wall budget of {wall_budget}s reached after {len(results)} of {nruns} runs; the rest was not run", flush=True)
    return agg, digests, time.time() - t0


# -- known findings -------------------------------------------------------------


def load_known_findings():
    try:
        with open(KNOWN_FINDINGS) as fh:
            data = json.load(fh)
    except FileNotFoundError:
        return []
    return [e for e in data.get("findings", []) if e.get("status") == "known"]


def match_known(prop, v, known):
    for e in known:
        if e.get("property") != prop:
            continue
        if e.get("oracle") and e["oracle"] != v.get("oracle"):
            continue
        if e.get("site") and e["site"] != v.get("site"):
            continue
        return e
    return None


# -- evidence -----------------------------------------------------------------


def write_evidence(mod, tier, master, agg, wall, coverage_extra, violations_n, level=None):
    os.makedirs(EVIDENCE_DIR, exist_ok=True)
    cov = {
        "evaluations": int(agg.evals),
        "distinct_nontrivial": int(len(agg.classes)),
        "rule": mod.RULE,
        "samples": agg.samples[:4] or ["(no run completed)"],
        "exhaustive": False,
        "runs": agg.runs,
        "runs_per_hour": int(agg.runs / wall * 3600) if wall > 0 else 0,
        "simulated_executions": int(agg.evals),
        "simulated_executions_per_hour": int(agg.evals / wall * 3600) if wall > 0 else 0,
        "simulated_seconds_covered": int(agg.sim_seconds),
        "events_executed": int(agg.events),
        "faults_fired": dict(sorted(agg.faults.items())),
        "probes": dict(sorted(agg.probes.items())),
        "distinct_trace_digests": len(agg.digests),
        "distinct_state_classes": len(agg.classes),
        "state_classes_sample": sorted(agg.classes)[:40],
        "discarded_workloads": int(agg.discarded),
        "harness_errors": len(agg.harness_errors),
        "components": REAL_STUB_TABLE,
        "repo_head": coverage_extra.pop("repo_head", None),
    }
    cov.update({k: v for k, v in agg.extra.items()})
    for k, v in agg.sets.items():
        cov["distinct_" + k] = len(v)
    cov.update(coverage_extra)
    ev = {
        "property_id": mod.ID,
        "tier": tier,
        "seed": int(master),
        "level": level or mod.LEVEL,
        "coverage": cov,
        "assumptions": list(mod.ASSUMPTIONS),
        "wall_s": round(wall, 2),
        "violations": int(violations_n),
    }
    path = os.path.join(EVIDENCE_DIR, f"{mod.ID}.json")
    tmp = path + ".tmp"
    with open(tmp, "w") as fh:
        json.dump(ev, fh, indent=1, sort_keys=False, default=repr)
        fh.write("\n")
    os.replace(tmp, path)
    return path


# -- replay files -------------------------------------------------------------


def write_replay(prop, v, replay):
    os.makedirs(REPLAY_DIR, exist_ok=True)
    name = f"{prop}-{v.get('run_seed', 0):016x}-{v.get('i', 0)}.json"
    path = os.path.join(REPLAY_DIR, name)
    with open(path, "w") as fh:
        json.dump(replay, fh, indent=1, default=repr)
        fh.write("\n")
    return path


def replay_in_fresh_interpreter(prop, path, timeout=300):
    """Replays a file in a fresh process; returns (exit status, stdout)."""
    env = dict(os.environ)
    p = subprocess.run(
        [sys.executable, os.path.join(VERIF, "simkit", "cli.py"), prop, "--replay", path],
        capture_output=True, text=True, timeout=timeout, env=env, check=False,
    )
    return p.returncode, p.stdout + p.stderr
