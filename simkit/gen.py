"""Seeded workload generators (never the deciding dimension of a check).

Everything here is a pure function of the `random.Random` it is given and
returns plain JSON-able data, so a workload can be stored in a replay file.
"""

from __future__ import annotations

_NAME_STEMS = ["s", "ctg", "scaffold_", "SCAFFOLD_", "chr", "x", "Hap1_ctg_", "c.", "u-", "R"]
_ACGT = "ACGT"
_LOWER = "acgt"
_OTHER = "NNNNnRYKMSWBDHV*-"


def gen_seq(rng, max_len):
    """A residue string made of runs (ACGT, lower case, N/IUPAC)."""
    target = rng.choice([1, 2, 3, rng.randint(1, 12), rng.randint(1, max_len), rng.randint(1, max_len)])
    out = []
    n = 0
    while n < target:
        kind = rng.random()
        run = min(target - n, rng.choice([1, 1, 2, 3, rng.randint(1, 10), rng.randint(1, 40)]))
        if kind < 0.55:
            out.append("".join(rng.choice(_ACGT) for _ in range(run)))
        elif kind < 0.7:
            out.append("".join(rng.choice(_LOWER) for _ in range(run)))
        elif kind < 0.9:
            out.append("N" * run)
        else:
            out.append("".join(rng.choice(_OTHER) for _ in range(run)))
        n += run
    return "".join(out)


def gen_many_rows(rng):
    """Scale outlier: one record whose derived assembly has well over a
    thousand rows (alternating short ACGT and N runs)."""
    n = rng.randint(520, 1200)
    if rng.random() < 0.5:
        seq = "".join(rng.choice(_ACGT) * rng.choice([1, 1, 2]) + "N" * rng.choice([1, 1, 3]) for _ in range(n))
    else:
        # ... with a few hundred DISTINCT gap lengths (memoised / pooled gap objects)
        n = rng.randint(520, 700)
        seq = "".join(rng.choice(_ACGT) + "N" * (1 + (i * 7) % 300) for i in range(n))
    rec = {"name": "big" + str(rng.randint(1, 9)), "desc": "", "seq": seq, "width": rng.choice([60, 61, len(seq)]), "crlf": False}
    recs = [rec]
    if rng.random() < 0.5:
        recs.append({"name": "small", "desc": "", "seq": gen_seq(rng, 30), "width": 60, "crlf": False})
    return {"records": recs, "final_newline": True}


def gen_huge_line(rng):
    """Scale outlier: one unwrapped record whose single line is longer than a mebibyte."""
    L = (1 << 20) + rng.randint(1000, 200_000)
    unit = "".join(rng.choice(_ACGT) for _ in range(997))
    seq = (unit * (L // len(unit) + 1))[:L]
    cut = rng.randrange(1000, L - 5000)
    seq = seq[:cut] + "N" * rng.choice([1, 100, 3000]) + seq[cut:]
    recs = [{"name": "huge", "desc": "", "seq": seq, "width": len(seq), "crlf": False},
            {"name": "small", "desc": "", "seq": gen_seq(rng, 30), "width": 60, "crlf": False}]
    return {"records": recs, "final_newline": True}


def gen_many_records(rng):
    """Scale outlier: well over a thousand short records."""
    n = rng.randint(1050, 1400)
    recs = []
    for k in range(n):
        L = rng.choice([1, 2, 5, 17, 50])
        seq = "".join(rng.choice("ACGTN") for _ in range(L))
        recs.append({"name": f"r{k}", "desc": "", "seq": seq, "width": rng.choice([7, 60]), "crlf": False})
    return {"records": recs, "final_newline": True}


def gen_fasta(rng, max_records=5, max_len=160, names=None, odd=True):
    """FASTA spec: uniform line width within a record, LF or CRLF per record,
    final newline present or absent, optional descriptions."""
    nrec = rng.choice([1, 1, 2, 2, 3, 3, 4, rng.randint(1, max_records)])
    used = set()
    recs = []
    for i in range(nrec):
        if names is not None and i < len(names):
            name = names[i]
        else:
            while True:
                name = rng.choice(_NAME_STEMS) + str(rng.randint(1, 30))
                if name not in used:
                    break
        used.add(name)
        seq = gen_seq(rng, max_len)
        if odd:
            # legal but unusual FASTA: a name beginning with '#', a record without residues
            r = rng.random()
            if r < 0.03:
                name = "#" + name
            elif r < 0.07:
                seq = ""
            elif r < 0.09:
                # a name ending in a control character which str.split() treats as
                # white space and bytes.split() does not, or which looks like a region
                name = name + rng.choice(["\x1f", "\x1c", ":10-20"])
        w = rng.choice([1, 2, 3, 5, 7, 10, 60, 80, len(seq), len(seq) + 3, rng.randint(1, 80)])
        w = max(1, w)
        recs.append({
            "name": name,
            "desc": rng.choice(["", "", "", " len=%d" % len(seq), "\tdesc with spaces "]),
            "seq": seq,
            "width": w,
            "crlf": rng.random() < 0.2,
        })
    return {"records": recs, "final_newline": rng.random() >= 0.15}


def render_fasta(spec):
    out = []
    recs = spec["records"]
    for i, r in enumerate(recs):
        nl = "\r\n" if r["crlf"] else "\n"
        out.append(">" + r["name"] + r["desc"] + nl)
        seq, w = r["seq"], r["width"]
        lines = [seq[j:j + w] for j in range(0, len(seq), w)]
        for k, line in enumerate(lines):
            last = i == len(recs) - 1 and k == len(lines) - 1
            if last and not spec["final_newline"]:
                out.append(line)
            else:
                out.append(line + nl)
    return "".join(out).encode("ascii")


def mutate_fasta(rng, spec):
    """Another version of a FASTA: sometimes an unrelated file, sometimes the
    same names with different residues, sometimes the same lengths with a
    different ACGT/N pattern (so that the .fai would not change at all)."""
    how = rng.random()
    if how < 0.3:
        return gen_fasta(rng)
    recs = [dict(r) for r in spec["records"]]
    new = {"records": recs, "final_newline": spec["final_newline"]}
    if how < 0.6:
        # same geometry, different gap pattern
        r = rng.choice(recs)
        s = list(r["seq"]) or ["A"]
        for _ in range(rng.randint(1, max(1, len(s) // 4))):
            j = rng.randrange(len(s))
            s[j] = "N" if s[j] in "ACGTacgt" else rng.choice(_ACGT)
        if "".join(s) == r["seq"]:
            s[0] = "N" if s[0] != "N" else "A"
        r["seq"] = "".join(s)
        return new
    if how < 0.8:
        # one record grows or shrinks
        r = rng.choice(recs)
        if len(r["seq"]) > 1 and rng.random() < 0.5:
            r["seq"] = r["seq"][: rng.randint(1, len(r["seq"]) - 1)]
        else:
            r["seq"] = r["seq"] + gen_seq(rng, 30)
        return new
    if how < 0.9 and len(recs) > 1:
        recs.pop(rng.randrange(len(recs)))
        return new
    extra = gen_fasta(rng, max_records=1)["records"][0]
    if extra["name"] in {r["name"] for r in recs}:
        extra["name"] += "_b"
    recs.insert(rng.randint(0, len(recs)), extra)
    return new
