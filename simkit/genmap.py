"""Workload generator: input assemblies and PretextView-model curation maps.

PretextView stub (DESIGN.md 3.7): input scaffolds are laid on a texel grid,
cut at texel boundaries into pieces of at least two texels, and the pieces are
moved, reoriented and regrouped into Pretext scaffolds which may be painted
and tagged.  Everything is plain data rendered to FASTA / TPF / AGP text.
"""

from __future__ import annotations

import io
import math

_ACGT = "ACGT"


# ---------------------------------------------------------------------------
# input assembly
# ---------------------------------------------------------------------------


def gen_scaffolds(rng, bpt, fasta_backed=True, n=None, hap_prefix=None, edge_gaps_ok=True, gap_p=0.8):
    """List of {"name", "rows"}; rows are ["F", contig, start, end, strand] or
    ["G", length, type].  FASTA-backed scaffolds consist of forward fragments
    of the record itself separated by 'scaffold' gaps and begin and end with a
    fragment."""
    n = n or rng.choice([1, 2, 2, 3, 3, 4, 5, 6])
    out = []
    for k in range(n):
        if hap_prefix:
            name = f"{hap_prefix}_scaffold_{k + 1}"
        else:
            name = rng.choice(["SCAFFOLD_", "scaffold_", "ctg", "s"]) + str(k + 1)
            if fasta_backed and edge_gaps_ok and rng.random() < 0.04:
                name = "#" + name  # legal FASTA name that AGP reads as a comment
            elif rng.random() < 0.05:
                # a name that itself looks like a region (TPF spells fragments name:start-end)
                name = name + rng.choice([":1001-4000", ":7-9", "-3:12-20", ":1-2:3-4"])
        texels = rng.choice([1, 3, 4, 6, 8, 10, 14, 20, 30, 45])
        target = max(1, int(texels * bpt + rng.randint(-int(bpt) // 2, int(bpt) // 2)))
        if rng.random() < 0.1:
            target = max(1, int(bpt * rng.random()))  # sub-texel scaffold
        elif rng.random() < 0.2:
            target = max(60, 60 * round(target / 60))  # a whole number of FASTA lines
        rows = []
        pos = 0
        ncontig = 0
        edge_gaps = fasta_backed and edge_gaps_ok and rng.random() < 0.25
        if edge_gaps and rng.random() < 0.7:
            g = rng.choice([1, 3, 10, 25])
            rows.append(["G", g, "scaffold"])  # the record begins with a run of N
            pos += g
            target += g
        while pos < target:
            L = min(target - pos, max(1, int(rng.choice([0.3, 0.8, 1.5, 2.5, 4, 7]) * bpt) + rng.randint(0, 5)))
            ncontig += 1
            if fasta_backed:
                rows.append(["F", name, pos + 1, pos + L, 1])
            else:
                cname = f"{name}.c{ncontig}"
                s = rng.choice([1, 1, 1, 11])
                rows.append(["F", cname, s, s + L - 1, rng.choice([1, 1, 1, -1])])
            pos += L
            if pos < target - 2 and rng.random() < gap_p:
                g = min(target - pos - 1, rng.choice([1, 5, 10, 100, 200]))
                if g > 0:
                    gt = "scaffold" if fasta_backed else rng.choice(["scaffold", "scaffold", "scaffold", "contig", "short_arm", "centromere", "repeat"])
                    rows.append(["G", g, gt])
                    pos += g
        if edge_gaps and rng.random() < 0.6:
            rows.append(["G", rng.choice([1, 2, 7, 30]), "scaffold"])  # ... or ends with one
        out.append({"name": name, "rows": rows})
    return out


def scaffold_length(sc):
    return sum((r[1] if r[0] == "G" else r[3] - r[2] + 1) for r in sc["rows"])


def render_fasta_for(rng, scaffolds, width=None, crlf=False, void_record=False):
    """FASTA text whose index-derived assembly is exactly `scaffolds`
    (FASTA-backed ones): ACGT for fragments, N for gaps; fragment boundaries
    are made unambiguous by never letting a fragment be followed directly by
    another fragment."""
    width = width or rng.choice([7, 10, 50, 60, 61, 80])
    out = io.StringIO()
    soft = rng.random() < 0.25      # soft-masked (lower case) stretches
    iupac = rng.random() < 0.2      # ambiguity codes instead of N in gaps
    described = rng.random() < 0.3  # descriptions after the sequence name
    for sc in scaffolds:
        seq = []
        for r in sc["rows"]:
            if r[0] == "G":
                if iupac:
                    seq.append("".join(rng.choice("NNnRYKMSW") for _ in range(r[1])))
                else:
                    seq.append("N" * r[1])
            else:
                frag = "".join(rng.choice(_ACGT) for _ in range(r[3] - r[2] + 1))
                if soft and rng.random() < 0.5:
                    k = rng.randrange(len(frag) + 1)
                    frag = frag[:k].lower() + frag[k:]
                seq.append(frag)
        s = "".join(seq)
        nl = "\r\n" if crlf else "\n"
        out.write(">" + sc["name"] + (rng.choice([" len=%d" % len(s), "\tcurated scaffold ", " x y z"]) if described else "") + nl)
        for j in range(0, len(s), width):
            out.write(s[j:j + width] + nl)
    if void_record:
        out.write(">void_record no residues" + ("\r\n" if crlf else "\n"))
    return out.getvalue()


def merge_adjacent_fragments(scaffolds):
    """FASTA-backed scaffolds cannot carry two adjacent fragments (the indexer
    merges them): merge them in the spec too."""
    for sc in scaffolds:
        rows = []
        for r in sc["rows"]:
            if rows and r[0] == "F" and rows[-1][0] == "F" and rows[-1][1] == r[1] and rows[-1][3] + 1 == r[2]:
                rows[-1][3] = r[3]
            else:
                rows.append(list(r))
        sc["rows"] = rows
    return scaffolds


def render_tpf(scaffolds, decorated=False, alt_spelling=False):
    out = io.StringIO()
    if decorated:
        out.write("## made by a pipeline\n##\n\n")
    for k, sc in enumerate(scaffolds):
        if decorated and k:
            out.write("\n")
        for r in sc["rows"]:
            if r[0] == "G":
                t = {"scaffold": "TYPE-2", "contig": "TYPE-3"}.get(r[2], r[2].upper().replace("_", "-"))
                if alt_spelling:
                    # spellings the parser also accepts
                    t = {"scaffold": "SCAFFOLD", "contig": "CONTIG", "short_arm": "SHORT_ARM", "centromere": "centromere"}.get(r[2], t)
                out.write(f"GAP\t{t}\t{r[1]}\n")
            else:
                st = {1: "PLUS", -1: "MINUS"}[r[4]]
                out.write(f"?\t{r[1]}:{r[2]}-{r[3]}\t{sc['name']}\t{st}\n")
    return out.getvalue()


def render_agp(scaffolds, header=()):
    out = io.StringIO()
    for h in header:
        out.write(f"# {h}\n")
    for sc in scaffolds:
        p = 0
        for i, r in enumerate(sc["rows"]):
            L = r[1] if r[0] == "G" else r[3] - r[2] + 1
            cols = [sc["name"], str(p + 1), str(p + L), str(i + 1)]
            p += L
            if r[0] == "G":
                cols += ["U", str(L), r[2], "yes", "proximity_ligation"]
            else:
                cols += ["W", r[1], str(r[2]), str(r[3]), {1: "+", -1: "-", 0: "?"}[r[4]]]
            out.write("\t".join(cols) + "\n")
    return out.getvalue()


# ---------------------------------------------------------------------------
# Pretext map
# ---------------------------------------------------------------------------


def gen_map(rng, scaffolds, bpt, edits=None, tagging=True, rich_tags=False, force=()):
    """PretextView-model map over `scaffolds`.  Returns
    {"bpt", "groups": [{"pieces": [[name, start, end, strand, [tags]]], ...}]}"""
    pieces_by_sc = []
    for sc in scaffolds:
        L = scaffold_length(sc)
        ntex = L / bpt
        n = rng.choice([math.floor(ntex), math.ceil(ntex)])
        if n < 1:
            if rng.random() < 0.5:
                continue  # sub-texel scaffold absent from the map
            n = 1
        # cut set on the texel grid, pieces >= 2 texels
        cuts = []
        if n >= 4 and rng.random() < (0.6 if edits is None else (1.0 if edits else 0.0)):
            k = rng.choice([1, 1, 2, 3])
            cand = list(range(2, n - 1))
            rng.shuffle(cand)
            for c in cand:
                if len(cuts) >= k:
                    break
                if all(abs(c - d) >= 2 for d in cuts):
                    cuts.append(c)
            cuts.sort()
        bounds = [0] + cuts + [n]
        ps = []
        for a, b in zip(bounds, bounds[1:]):
            start = int(round(a * bpt)) + 1
            end = int(round(b * bpt))
            if b == n and rng.random() < 0.5:
                end = L  # some Pretext versions clip the last piece to the real end
            if end < start:
                end = start
            ps.append([sc["name"], start, end, 1, []])
        pieces_by_sc.append(ps)
    groups = [{"pieces": ps} for ps in pieces_by_sc if ps]
    if not groups:
        return None
    if rng.random() < 0.1 or "junk" in force:
        # the map was drawn from a longer, earlier version of one scaffold: a few dozen
        # pieces lie past its present end (each is reported: "No overlaps found for ...")
        sc = rng.choice(scaffolds)
        L = scaffold_length(sc)
        step = max(2, int(2 * bpt))
        junk = [[sc["name"], L + 1 + k * step, L + (k + 1) * step, 1, []] for k in range(rng.randint(26, 40))]
        groups.append({"pieces": junk})
    do_edit = rng.random() < 0.75 if edits is None else edits
    if do_edit:
        for _ in range(rng.choice([1, 1, 2, 3, 5])):
            e = rng.random()
            g = rng.choice(groups)
            if e < 0.3 and g["pieces"]:
                # reverse one piece in place
                p = rng.choice(g["pieces"])
                p[3] = -p[3]
            elif e < 0.5:
                # reverse a whole group
                g["pieces"].reverse()
                for p in g["pieces"]:
                    p[3] = -p[3]
            elif e < 0.58 and len(groups) > 1:
                # a short piece (less than a FASTA line) goes between two pieces of one scaffold
                shorts = [x for x in groups if len(x["pieces"]) == 1 and x["pieces"][0][2] - x["pieces"][0][1] < 60]
                hosts = [x for x in groups if len(x["pieces"]) > 1 and x not in shorts]
                if shorts and hosts:
                    src, dst = rng.choice(shorts), rng.choice(hosts)
                    dst["pieces"].insert(rng.randint(1, len(dst["pieces"]) - 1), src["pieces"].pop())
            elif e < 0.8 and len(groups) > 1:
                # move a piece to another group
                src = rng.choice([x for x in groups if x["pieces"]])
                p = src["pieces"].pop(rng.randrange(len(src["pieces"])))
                dst = rng.choice(groups)
                dst["pieces"].insert(rng.randint(0, len(dst["pieces"])), p)
            else:
                # split a piece off into a new group
                src = rng.choice([x for x in groups if x["pieces"]])
                if len(src["pieces"]) > 1:
                    p = src["pieces"].pop(rng.randrange(len(src["pieces"])))
                    groups.insert(rng.randint(0, len(groups)), {"pieces": [p]})
        groups = [g for g in groups if g["pieces"]]
    if tagging:
        # paint the larger groups
        sizes = sorted((sum(p[2] - p[1] + 1 for p in g["pieces"]) for g in groups), reverse=True)
        npaint = rng.choice([0, 1, 2, 3, len(groups)])
        thresh = sizes[min(npaint, len(sizes)) - 1] if npaint else None
        named = False
        for g in groups:
            size = sum(p[2] - p[1] + 1 for p in g["pieces"])
            if thresh is not None and size >= thresh:
                for p in g["pieces"]:
                    p[4].append("Painted")
                if not named and rng.random() < 0.25:
                    named = True
                    t = rng.choice(["X", "Z", "W", "B1"])
                    for p in g["pieces"]:
                        p[4].append(t)
                if len(g["pieces"]) > 1 and rng.random() < 0.4:
                    g["pieces"][-1][4].append("Unloc")
                if len(g["pieces"]) > 2 and rng.random() < 0.2:
                    g["pieces"][-2][4].append("Unloc")
            if rng.random() < 0.15:
                rng.choice(g["pieces"])[4].append("Haplotig")
            elif rng.random() < 0.1 and not any("Painted" in p[4] for p in g["pieces"]):
                for p in g["pieces"]:
                    p[4].append("Contaminant")
            elif rng.random() < 0.05:
                rng.choice(g["pieces"])[4].append("FalseDuplicate")
        if rng.random() < 0.3:
            # "Target" mode: the wanted scaffolds are tagged, everything after the
            # first Target tag without one is treated as a contaminant
            for g in groups:
                if rng.random() < 0.7:
                    for p in g["pieces"]:
                        p[4].append("Target")
    if rich_tags:
        # every painted scaffold carries several tags at once (the tables of the
        # DEBUG log and the cut-fragment tags are built from these sets)
        for g in groups:
            if any("Painted" in p[4] for p in g["pieces"]):
                for p in g["pieces"]:
                    if "Target" not in p[4]:
                        p[4].append("Target")
                if "Singleton" not in g["pieces"][0][4]:
                    g["pieces"][0][4].append("Singleton")
        if not any("Painted" in p[4] for g in groups for p in g["pieces"]):
            for p in groups[0]["pieces"]:
                p[4][:] = ["Painted", "Target", "Singleton"]
    return {"bpt": bpt, "groups": groups}


def tag_haplotypes(rng, m, force=()):
    """Two-haplotype map: groups are painted and tagged Hap1/Hap2 by the
    haplotype of their first piece; Pretext lists homologues next to each other."""
    groups = m["groups"]

    def hap_of(g):
        return g["pieces"][0][0].split("_")[0]

    haps = sorted({hap_of(g) for g in groups if hap_of(g).startswith("Hap")})
    by_hap = {h: [g for g in groups if hap_of(g) == h] for h in haps}
    paint = min([len(v) for v in by_hap.values()] + [rng.choice([1, 2, 3])])
    order = []
    for k in range(paint):
        for h in haps:
            g = by_hap[h][k]
            for p in g["pieces"]:
                p[4][:] = ["Painted", h]
            order.append(g)
    if order and (rng.random() < 0.15 or "double_spelt" in force) and len(order[0]["pieces"]) > 1:
        # the same haplotype spelt two ways inside one scaffold (the tool refuses this)
        pc = order[0]["pieces"][-1]
        pc[4][:] = [t.upper() if t.startswith("Hap") else t for t in pc[4]]
    if order and (rng.random() < 0.4 or "primary_mismatch" in force):
        for p in order[0]["pieces"]:
            p[4].append("Primary")
        if (rng.random() < 0.4 or "primary_mismatch" in force) and len(haps) > 1:
            # ... whose explicit haplotype tag disagrees with the name of its first
            # contig (a chromosome assembled from the other haplotype's scaffold)
            other = rng.choice([h for h in haps if h != hap_of(order[0])])
            for p in order[0]["pieces"]:
                p[4][:] = [(other if t in haps else t) for t in p[4]]
    if len(order) > 2 and rng.random() < 0.2:
        for p in order[-1]["pieces"]:
            p[4].append("Singleton")
    extra = rng.random() < 0.4
    if extra and order:
        t = rng.choice(["X", "Z", "W"])
        for p in order[0]["pieces"]:
            p[4].append(t)
    rest = [g for g in groups if g not in order]
    for g in rest:
        if rng.random() < 0.3:
            for p in g["pieces"]:
                p[4][:] = [hap_of(g)]
    m["groups"] = order + rest


def render_pretext_agp(m, gap=100):
    out = io.StringIO()
    out.write("##agp-version\t2.1\n")
    out.write("# DESCRIPTION: Generated by PretextView Version 0.2.5\n")
    out.write(f"# HiC MAP RESOLUTION: {m['bpt']:.6f} bp/texel\n")
    for gi, g in enumerate(m["groups"]):
        name = f"Scaffold_{gi + 1}"
        p = 0
        part = 0
        for k, pc in enumerate(g["pieces"]):
            if k:
                part += 1
                out.write(f"{name}\t{p + 1}\t{p + gap}\t{part}\tU\t{gap}\tscaffold\tyes\tproximity_ligation\n")
                p += gap
            L = pc[2] - pc[1] + 1
            part += 1
            cols = [name, str(p + 1), str(p + L), str(part), "W", pc[0], str(pc[1]), str(pc[2]), "+" if pc[3] == 1 else "-"]
            cols += pc[4]
            out.write("\t".join(cols) + ("\t\n" if pc[4] and len(pc[4]) > 1 else "\n"))
            p += L
        out.write("\n")
    return out.getvalue()


# ---------------------------------------------------------------------------
# convenience: a whole workload
# ---------------------------------------------------------------------------


def splice_short_scaffold(rng, m, scaffolds, bpt):
    """A curation that is common in practice: a scaffold is broken in two and a
    small one (shorter than a FASTA line) is placed into the break."""
    groups = m["groups"]
    shorts = [g for g in groups if len(g["pieces"]) == 1 and g["pieces"][0][2] - g["pieces"][0][1] + 1 < 60
              and g["pieces"][0][1] == 1]
    if not shorts:
        # a short scaffold that is too small to appear in the map on its own
        inmap = {p[0] for g in groups for p in g["pieces"]}
        absent = [sc for sc in scaffolds if sc["name"] not in inmap and scaffold_length(sc) < 60
                  and all(r[0] == "F" for r in sc["rows"])]
        if not absent:
            return
        sc = rng.choice(absent)
        groups.append({"pieces": [[sc["name"], 1, scaffold_length(sc), 1, []]]})
        shorts = [groups[-1]]
    sg = rng.choice(shorts)
    hosts = [g for g in groups if g is not sg and g["pieces"]]
    if not hosts:
        return
    # (half of the time the longest host: a first half that spans several FASTA lines)
    host = rng.choice(hosts) if rng.random() < 0.5 else max(hosts, key=lambda g: sum(p[2] - p[1] + 1 for p in g["pieces"]))
    if len(host["pieces"]) < 2:
        pc = host["pieces"][0]
        ntex = int((pc[2] - pc[1] + 1) // bpt)
        if ntex < 4:
            return
        cut = pc[1] - 1 + int(round(rng.randint(2, ntex - 2) * bpt))
        second = [pc[0], cut + 1, pc[2], pc[3], list(pc[4])]
        pc[2] = cut
        host["pieces"].insert(1, second)
        if pc[3] == -1:
            host["pieces"][0], host["pieces"][1] = host["pieces"][1], host["pieces"][0]
    piece = sg["pieces"].pop()
    piece[4][:] = list(host["pieces"][0][4])
    # after a piece longer than a FASTA line, if there is one
    after = [k for k in range(len(host["pieces"]) - 1) if host["pieces"][k][2] - host["pieces"][k][1] + 1 > 61]
    pos = (rng.choice(after) + 1) if after else rng.randint(1, len(host["pieces"]) - 1)
    host["pieces"].insert(pos, piece)
    m["groups"] = [g for g in groups if g["pieces"]]
    return True


def gen_workload(rng, fasta_backed=True, tagging=True, haps=None, rich_tags=False, force=()):
    """{"bpt", "scaffolds", "map", "fasta" (if FASTA-backed), "tpf", "agp", "pretext_agp"} or None"""
    bpt = rng.choice([8.0, 10.0, 16.5, 23.116333, 40.0, 64.25])
    if haps is None:
        haps = rng.random() < 0.33
    if haps:
        scaffolds = []
        n = rng.choice([1, 2, 3])
        for h in (("Hap1", "Hap2") if rng.random() < 0.6 and "three_haps" not in force else ("Hap1", "Hap2", "Hap3")):
            scaffolds += gen_scaffolds(rng, bpt, fasta_backed=fasta_backed, n=n, hap_prefix=h)
    else:
        scaffolds = gen_scaffolds(rng, bpt, fasta_backed=fasta_backed, gap_p=0.1 if "few_gaps" in force else 0.8)
        if fasta_backed and (rng.random() < 0.3 or "splice" in force):
            # one more, shorter than a FASTA line (material for the splice curation below)
            L = rng.randint(3, 55)
            name = f"tiny{len(scaffolds) + 1}"
            scaffolds.append({"name": name, "rows": [["F", name, 1, L, 1]]})
    if fasta_backed:
        merge_adjacent_fragments(scaffolds)
    m = gen_map(rng, scaffolds, bpt, tagging=tagging and not haps, rich_tags=rich_tags and not haps, force=force)
    if m is None:
        return None
    spliced = False
    if not haps and (rng.random() < 0.5 or "splice" in force):
        spliced = bool(splice_short_scaffold(rng, m, scaffolds, bpt))
    if "splice" in force and not spliced:
        return None
    if haps:
        tag_haplotypes(rng, m, force=force)
    w = {
        "bpt": bpt,
        "scaffolds": scaffolds,
        "map": m,
        "tpf": render_tpf(scaffolds, decorated=rng.random() < 0.3, alt_spelling=rng.random() < 0.3),
        "agp": render_agp(scaffolds),
        "pretext_agp": render_pretext_agp(m),
    }
    if fasta_backed:
        w["fasta"] = render_fasta_for(rng, scaffolds, crlf=rng.random() < 0.15, void_record=rng.random() < 0.06,
                                      width=60 if "lines_of_60" in force else None)
    return w


def gen_assembly_and_map(rng):
    """Parsed (input Assembly, Pretext Assembly, short description) using the
    repo's own parsers."""
    from tola.assembly.parser import parse_agp, parse_tpf

    while True:
        w = gen_workload(rng, fasta_backed=rng.random() < 0.5, tagging=rng.random() < 0.6)
        if w is not None:
            break
    asm = parse_agp(io.StringIO(w["agp"]), "input")  # (AGP can carry a scaffold that begins with a gap)
    prtxt = parse_agp(io.StringIO(w["pretext_agp"]), "pretext")
    desc = f"bpt={w['bpt']} scaffolds={[(s['name'], scaffold_length(s)) for s in w['scaffolds']]} groups={[[tuple(p[:4]) + (tuple(p[4]),) for p in g['pieces']] for g in w['map']['groups']]}"
    return asm, prtxt, desc
